use vstd::prelude::*;
use std::collections::HashMap;
verus! {
pub broadcast axiom fn axiom_string_obeys_key_model()
    ensures #[trigger] vstd::std_specs::hash::obeys_key_model::<String>();
fn t1(m: &HashMap<String, u8>, k: &String) -> (r: bool)
    ensures r == m@.contains_key(*k)
{
    broadcast use vstd::std_specs::hash::group_hash_axioms, axiom_string_obeys_key_model;
    m.contains_key(k)
}
fn t2(m: &HashMap<String, u8>, ks: &Vec<String>) -> (r: bool)
    ensures r == (forall|i: int| 0 <= i < ks@.len() ==> m@.contains_key(#[trigger] ks@[i]))
{
    broadcast use vstd::std_specs::hash::group_hash_axioms, axiom_string_obeys_key_model;
    for k in it: ks
        invariant
            forall|i: int| 0 <= i < it.index@ ==> m@.contains_key(#[trigger] ks@[i]),
    {
        broadcast use vstd::std_specs::hash::group_hash_axioms, axiom_string_obeys_key_model;
        if !m.contains_key(k) {
            return false;
        }
    }
    true
}
} // verus!
fn main() {}
