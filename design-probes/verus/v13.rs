use vstd::prelude::*;
verus! {
pub uninterp spec fn sha1_spec(m: Seq<u8>) -> Seq<u8>;
pub uninterp spec fn b64std(b: Seq<u8>) -> Seq<char>;
pub struct Sha1 { pub absorbed: Ghost<Seq<u8>> }
pub struct Digest { pub bytes: Ghost<Seq<u8>> }
impl Sha1 {
    #[verifier::external_body]
    pub fn default() -> (r: Sha1) ensures r.absorbed@ == Seq::<u8>::empty() { unimplemented!() }
    #[verifier::external_body]
    pub fn update(&mut self, data: &[u8]) ensures final(self).absorbed@ == old(self).absorbed@ + data@ { unimplemented!() }
    #[verifier::external_body]
    pub fn finalize(self) -> (r: Digest) ensures r.bytes@ == sha1_spec(self.absorbed@) { unimplemented!() }
}
#[verifier::external_body]
pub fn standard_encode(d: &Digest) -> (r: String) ensures r@ == b64std(d.bytes@) { unimplemented!() }

pub open spec fn rfc6455_guid() -> Seq<u8> {
    seq![0x32u8,0x35,0x38,0x45,0x41,0x46,0x41,0x35,0x2d,0x45,0x39,0x31,0x34,0x2d,0x34,0x37,0x44,0x41,0x2d,0x39,0x35,0x43,0x41,0x2d,0x43,0x35,0x41,0x42,0x30,0x44,0x43,0x38,0x35,0x42,0x31,0x31]
}

fn derive_accept_key(request_key: &[u8]) -> (r: String)
    ensures r@ == b64std(sha1_spec(request_key@ + rfc6455_guid()))
{
    // ... field is constructed by concatenating /key/ ...
    // ... with the string "258EAFA5-E914-47DA-95CA-C5AB0DC85B11" (RFC 6455)
    const WS_GUID: &[u8] = b"258EAFA5-E914-47DA-95CA-C5AB0DC85B11";
    let mut sha1 = Sha1::default();
    sha1.update(request_key);
    sha1.update(WS_GUID);
    standard_encode(&sha1.finalize())
}
} // verus!
fn main() {}
