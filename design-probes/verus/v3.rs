use vstd::prelude::*;
use vstd::std_specs::cmp::*;
use core::cmp::Ordering;
verus! {

// ---- trusted prelude: abstract stand-in for semver::Version ----
#[verifier::external_body]
pub struct Version { _opaque: u8 }

/// the (assumed total) precedence order of semver::Version's Ord impl
pub uninterp spec fn vle(a: Version, b: Version) -> bool;

pub broadcast axiom fn vle_total(a: Version, b: Version)
    ensures #[trigger] vle(a, b) || vle(b, a);
pub broadcast axiom fn vle_antisym(a: Version, b: Version)
    requires #[trigger] vle(a, b), #[trigger] vle(b, a)
    ensures a == b;
pub broadcast axiom fn vle_trans(a: Version, b: Version, c: Version)
    requires #[trigger] vle(a, b), #[trigger] vle(b, c)
    ensures vle(a, c);

impl PartialEqSpecImpl for Version {
    open spec fn obeys_eq_spec() -> bool { true }
    open spec fn eq_spec(&self, other: &Self) -> bool { *self == *other }
}
impl PartialEq for Version {
    #[verifier::external_body]
    fn eq(&self, other: &Self) -> (r: bool) { unimplemented!() }
}
impl Eq for Version {}
impl PartialOrdSpecImpl for Version {
    open spec fn obeys_partial_cmp_spec() -> bool { true }
    open spec fn partial_cmp_spec(&self, other: &Self) -> Option<Ordering> {
        if *self == *other { Some(Ordering::Equal) } else if vle(*self, *other) { Some(Ordering::Less) } else { Some(Ordering::Greater) }
    }
}
impl PartialOrd for Version {
    #[verifier::external_body]
    fn partial_cmp(&self, other: &Self) -> (r: Option<Ordering>) { unimplemented!() }
}

pub struct OrderedVersionPair {
    earliest: Version,
    until: Version,
}

pub enum ApiEndpointVersions {
    All,
    From(Version),
    FromUntil(OrderedVersionPair),
    Until(Version),
}

spec fn vlt(a: Version, b: Version) -> bool { vle(a,b) && a != b }

/// property-level meaning of a range, taken from C05's statement
spec fn in_range(r: ApiEndpointVersions, v: Version) -> bool {
    match r {
        ApiEndpointVersions::All => true,
        ApiEndpointVersions::From(a) => vle(a, v),
        ApiEndpointVersions::Until(b) => vlt(v, b),
        ApiEndpointVersions::FromUntil(p) =>
            if p.earliest == p.until { v == p.earliest } else { vle(p.earliest, v) && vlt(v, p.until) },
    }
}

impl ApiEndpointVersions {
    pub(crate) fn matches(&self, version: Option<&Version>) -> (r: bool)
        ensures r == match version { None => true, Some(v) => in_range(*self, *v) }
    {
        broadcast use vle_total, vle_antisym, vle_trans;
        let Some(version) = version else {
            // If there's no version constraint at all, then all versions match.
            return true;
        };

        match self {
            ApiEndpointVersions::All => true,
            ApiEndpointVersions::From(earliest) => version >= earliest,
            ApiEndpointVersions::FromUntil(OrderedVersionPair {
                earliest,
                until,
            }) => {
                version >= earliest
                    && (version < until
                        || (version == until && earliest == until))
            }
            ApiEndpointVersions::Until(until) => version < until,
        }
    }
}

} // verus!
fn main() {}
