use vstd::prelude::*;
verus! {
// trusted prelude: stand-ins for serde_json / base64, related only by assumed round-trip contracts
pub uninterp spec fn json_of<T>(x: T) -> Option<Seq<u8>>;          // serde_json::to_vec
pub uninterp spec fn json_parse<T>(b: Seq<u8>) -> Option<T>;       // serde_json::from_slice
pub uninterp spec fn b64(b: Seq<u8>) -> Seq<char>;                 // URL_SAFE.encode
pub uninterp spec fn b64_dec(s: Seq<char>) -> Option<Seq<u8>>;     // URL_SAFE.decode
pub broadcast axiom fn ax_json_rt<T>(x: T)
    ensures json_of(x) is Some ==> #[trigger] json_parse::<T>(json_of(x)->Some_0) == Some(x);
pub broadcast axiom fn ax_b64_rt(b: Seq<u8>)
    ensures #[trigger] b64_dec(b64(b)) == Some(b);

pub uninterp spec fn utf8_len(s: Seq<char>) -> nat;
pub assume_specification[String::len](s: &String) -> (r: usize) ensures r as nat == utf8_len(s@);
#[verifier::external_body]
pub struct SerdeErr { _p: u8 }
#[verifier::external_body]
pub struct B64Err { _p: u8 }
#[verifier::external_body]
pub fn to_vec<T>(x: &T) -> (r: Result<Vec<u8>, SerdeErr>)
    ensures (r is Ok) == (json_of(*x) is Some), r is Ok ==> r->Ok_0@ == json_of(*x)->Some_0 { unimplemented!() }
#[verifier::external_body]
pub fn from_slice<T>(b: &[u8]) -> (r: Result<T, SerdeErr>)
    ensures (r is Ok) == (json_parse::<T>(b@) is Some), r is Ok ==> r->Ok_0 == json_parse::<T>(b@)->Some_0 { unimplemented!() }
#[verifier::external_body]
pub fn url_safe_encode(b: Vec<u8>) -> (r: String) ensures r@ == b64(b@) { unimplemented!() }
#[verifier::external_body]
pub fn url_safe_decode(s: &str) -> (r: Result<Vec<u8>, B64Err>)
    ensures (r is Ok) == (b64_dec(s@) is Some), r is Ok ==> r->Ok_0@ == b64_dec(s@)->Some_0 { unimplemented!() }
#[verifier::external_body]
pub fn fmt_opaque() -> String { unimplemented!() }
pub struct HttpError { pub status: u16 }
impl HttpError {
    #[verifier::external_body]
    pub fn for_internal_error(msg: String) -> (r: HttpError) ensures r.status == 500 { unimplemented!() }
}

#[derive(PartialEq, Eq)]
pub enum PaginationVersion { V1 }
pub struct SerializedToken<PageSelector> { pub v: PaginationVersion, pub page_start: PageSelector }
const MAX_TOKEN_LENGTH: usize = 512;

fn serialize_page_token<PageSelector>(
    page_start: PageSelector,
) -> (r: Result<String, HttpError>)
    ensures r is Ok ==> {
        &&& json_of(SerializedToken { v: PaginationVersion::V1, page_start }) is Some
        &&& r->Ok_0@ == b64(json_of(SerializedToken { v: PaginationVersion::V1, page_start })->Some_0)
        &&& utf8_len(r->Ok_0@) <= MAX_TOKEN_LENGTH
    }
{
    let token_bytes = {
        let serialized_token =
            SerializedToken { v: PaginationVersion::V1, page_start };

        let json_bytes =
            to_vec(&serialized_token).map_err(|e: SerdeErr| -> (h: HttpError) {
                HttpError::for_internal_error(fmt_opaque())
            })?;

        url_safe_encode(json_bytes)
    };
    if token_bytes.len() > MAX_TOKEN_LENGTH {
        return Err(HttpError::for_internal_error(fmt_opaque()));
    }

    Ok(token_bytes)
}
} // verus!
fn main() {}
