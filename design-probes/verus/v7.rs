use vstd::prelude::*;
use vstd::std_specs::cmp::*;
use std::cmp::min;
use std::num::NonZeroU32;
verus! {
pub uninterp spec fn min_spec<T>(a: T, b: T) -> T;
pub assume_specification<T: core::cmp::Ord>[std::cmp::min](a: T, b: T) -> (r: T)
    ensures r == min_spec(a, b);
pub broadcast axiom fn min_spec_nonzero_u32(a: NonZeroU32, b: NonZeroU32)
    ensures (#[trigger] min_spec(a, b))@ == (if a@ <= b@ { a@ } else { b@ });


pub struct ServerConfig {
    pub page_max_nitems: NonZeroU32,
    pub page_default_nitems: NonZeroU32,
}
pub struct PaginationParams { pub limit: Option<NonZeroU32> }

fn page_limit(server_config: &ServerConfig, pag_params: &PaginationParams) -> (r: Result<NonZeroU32, ()>)
    ensures r is Ok,
       match pag_params.limit {
          None => r->Ok_0 == server_config.page_default_nitems,
          Some(l) => r->Ok_0@ == if l@ <= server_config.page_max_nitems@ { l@ } else { server_config.page_max_nitems@ },
       }
{
        broadcast use min_spec_nonzero_u32;
        Ok(pag_params
            .limit
            .map(|limit: NonZeroU32| -> (m: NonZeroU32) ensures m@ == (if limit@ <= server_config.page_max_nitems@ { limit@ } else { server_config.page_max_nitems@ }) { min(limit, server_config.page_max_nitems) })
            .unwrap_or(server_config.page_default_nitems))
}
} // verus!
fn main() {}
