use vstd::prelude::*;
verus! {
pub struct HttpError { pub status: u16 }
pub uninterp spec fn token_of<S>(s: S) -> Option<String>;
#[verifier::external_body]
fn serialize_page_token<PageSelector>(page_start: PageSelector) -> (r: Result<String, HttpError>)
    ensures (r is Ok) == (token_of(page_start) is Some), r is Ok ==> r->Ok_0 == token_of(page_start)->Some_0
{ unimplemented!() }

// trusted: Option<Result<T,E>>::transpose
pub assume_specification<T, E>[Option::<Result<T, E>>::transpose](o: Option<Result<T, E>>) -> (r: Result<Option<T>, E>)
    ensures r == (match o { None => Ok(None), Some(Ok(t)) => Ok(Some(t)), Some(Err(e)) => Err(e) });

pub struct ResultsPage<ItemType> {
    pub next_page: Option<String>,
    pub items: Vec<ItemType>,
}

impl<ItemType> ResultsPage<ItemType> {
    pub fn new<F, ScanParams, PageSelector>(
        items: Vec<ItemType>,
        scan_params: &ScanParams,
        get_page_selector: F,
    ) -> (r: Result<ResultsPage<ItemType>, HttpError>)
    where
        F: Fn(&ItemType, &ScanParams) -> PageSelector,
        requires forall|i: &ItemType, s: &ScanParams| call_requires(get_page_selector, (i, s)),
        ensures r is Ok ==> {
            &&& r->Ok_0.items == items
            &&& (r->Ok_0.next_page is Some) == (items@.len() > 0)
            &&& items@.len() > 0 ==> exists|sel: PageSelector| call_ensures(get_page_selector, (&items@.last(), scan_params), sel) && token_of(sel) == r->Ok_0.next_page
        }
    {
        let next_page = items
            .last()
            .map(|last_item: &ItemType| -> (t: Result<String, HttpError>)
                ensures exists|sel: PageSelector| call_ensures(get_page_selector, (last_item, scan_params), sel) && (t is Ok) == (token_of(sel) is Some) && (t is Ok ==> t->Ok_0 == token_of(sel)->Some_0)
            {
                let selector = get_page_selector(last_item, scan_params);
                serialize_page_token(selector)
            })
            .transpose()?;

        Ok(ResultsPage { next_page, items })
    }
}
} // verus!
fn main() {}
