use vstd::prelude::*;
use vstd::std_specs::cmp::*;
use core::cmp::Ordering;
verus! {

// ---- trusted prelude: abstract stand-in for Version ----
#[verifier::external_body]
pub struct Version { _opaque: u8 }

/// the (assumed total) precedence order of Version's Ord impl
pub uninterp spec fn vle(a: Version, b: Version) -> bool;

pub broadcast axiom fn vle_total(a: Version, b: Version)
    ensures #[trigger] vle(a, b) || vle(b, a);
pub broadcast axiom fn vle_antisym(a: Version, b: Version)
    requires #[trigger] vle(a, b), #[trigger] vle(b, a)
    ensures a == b;
pub broadcast axiom fn vle_trans(a: Version, b: Version, c: Version)
    requires #[trigger] vle(a, b), #[trigger] vle(b, c)
    ensures vle(a, c);

impl PartialEqSpecImpl for Version {
    open spec fn obeys_eq_spec() -> bool { true }
    open spec fn eq_spec(&self, other: &Self) -> bool { *self == *other }
}
impl PartialEq for Version {
    #[verifier::external_body]
    fn eq(&self, other: &Self) -> (r: bool) { unimplemented!() }
}
impl Eq for Version {}
impl PartialOrdSpecImpl for Version {
    open spec fn obeys_partial_cmp_spec() -> bool { true }
    open spec fn partial_cmp_spec(&self, other: &Self) -> Option<Ordering> {
        if *self == *other { Some(Ordering::Equal) } else if vle(*self, *other) { Some(Ordering::Less) } else { Some(Ordering::Greater) }
    }
}
impl PartialOrd for Version {
    #[verifier::external_body]
    fn partial_cmp(&self, other: &Self) -> (r: Option<Ordering>) { unimplemented!() }
}

pub struct OrderedVersionPair {
    earliest: Version,
    until: Version,
}

pub enum ApiEndpointVersions {
    All,
    From(Version),
    FromUntil(OrderedVersionPair),
    Until(Version),
}

spec fn vlt(a: Version, b: Version) -> bool { vle(a,b) && a != b }

/// property-level meaning of a range, taken from C05's statement
spec fn in_range(r: ApiEndpointVersions, v: Version) -> bool {
    match r {
        ApiEndpointVersions::All => true,
        ApiEndpointVersions::From(a) => vle(a, v),
        ApiEndpointVersions::Until(b) => vlt(v, b),
        ApiEndpointVersions::FromUntil(p) =>
            if p.earliest == p.until { v == p.earliest } else { vle(p.earliest, v) && vlt(v, p.until) },
    }
}

impl ApiEndpointVersions {
    pub(crate) fn matches(&self, version: Option<&Version>) -> (r: bool)
        ensures r == match version { None => true, Some(v) => in_range(*self, *v) }
    {
        broadcast use vle_total, vle_antisym, vle_trans;
        let Some(version) = version else {
            // If there's no version constraint at all, then all versions match.
            return true;
        };

        match self {
            ApiEndpointVersions::All => true,
            ApiEndpointVersions::From(earliest) => version >= earliest,
            ApiEndpointVersions::FromUntil(OrderedVersionPair {
                earliest,
                until,
            }) => {
                version >= earliest
                    && (version < until
                        || (version == until && earliest == until))
            }
            ApiEndpointVersions::Until(until) => version < until,
        }
    }
    pub(crate) fn overlaps_with(&self, other: &ApiEndpointVersions) -> (r: bool) 
        requires wf(*self), wf(*other)
        ensures
            known_exception(*self, *other) || r == shared(*self, *other)
    {
        broadcast use vle_total, vle_antisym, vle_trans;
        proof { overlap_witness(*self, *other); }

        // There must be better ways to do this.  You might think:
        //
        // - `semver` has a `VersionReq`, which represents a range similar to
        //   our variants.  But it does not have a way to programmatically
        //   construct it and it does not support an "intersection" operator.
        //
        // - These are basically Rust ranges, right?  Yes, but Rust also doesn't
        //   have a range "intersection" operator.
        match (self, other) {
            // easy degenerate cases
            (ApiEndpointVersions::All, _) => true,
            (_, ApiEndpointVersions::All) => true,
            (ApiEndpointVersions::From(_), ApiEndpointVersions::From(_)) => {
                true
            }
            (ApiEndpointVersions::Until(_), ApiEndpointVersions::Until(_)) => {
                true
            }

            // more complicated cases
            (
                ApiEndpointVersions::From(earliest),
                u @ ApiEndpointVersions::Until(_),
            ) => u.matches(Some(&earliest)),
            (
                u @ ApiEndpointVersions::Until(_),
                ApiEndpointVersions::From(earliest),
            ) => u.matches(Some(&earliest)),

            (
                ApiEndpointVersions::From(earliest),
                ApiEndpointVersions::FromUntil(OrderedVersionPair {
                    earliest: _,
                    until,
                }),
            ) => earliest < until,
            (
                ApiEndpointVersions::FromUntil(OrderedVersionPair {
                    earliest: _,
                    until,
                }),
                ApiEndpointVersions::From(earliest),
            ) => earliest < until,

            (
                u @ ApiEndpointVersions::Until(_),
                ApiEndpointVersions::FromUntil(OrderedVersionPair {
                    earliest,
                    until: _,
                }),
            ) => u.matches(Some(&earliest)),
            (
                ApiEndpointVersions::FromUntil(OrderedVersionPair {
                    earliest,
                    until: _,
                }),
                u @ ApiEndpointVersions::Until(_),
            ) => u.matches(Some(&earliest)),

            (
                r1 @ ApiEndpointVersions::FromUntil(OrderedVersionPair {
                    earliest: earliest1,
                    until: _,
                }),
                r2 @ ApiEndpointVersions::FromUntil(OrderedVersionPair {
                    earliest: earliest2,
                    until: _,
                }),
            ) => r1.matches(Some(&earliest2)) || r2.matches(Some(&earliest1)),
        }
    }
}


spec fn wf(r: ApiEndpointVersions) -> bool {
    match r { ApiEndpointVersions::FromUntil(p) => vle(p.earliest, p.until), _ => true }
}
spec fn shared(a: ApiEndpointVersions, b: ApiEndpointVersions) -> bool {
    exists|v: Version| in_range(a, v) && in_range(b, v)
}
spec fn empty_until(r: ApiEndpointVersions) -> bool {
    match r { ApiEndpointVersions::Until(u) => !(exists|v: Version| vlt(v, u)), _ => false }
}
spec fn single_at(r: ApiEndpointVersions, x: Version) -> bool {
    match r { ApiEndpointVersions::FromUntil(p) => p.earliest == p.until && p.until == x, _ => false }
}
spec fn known_exception(a: ApiEndpointVersions, b: ApiEndpointVersions) -> bool {
    ||| (empty_until(a) && (b is All || b is Until))
    ||| (empty_until(b) && (a is All || a is Until))
    ||| (match a { ApiEndpointVersions::From(x) => single_at(b, x), _ => false })
    ||| (match b { ApiEndpointVersions::From(x) => single_at(a, x), _ => false })
    ||| (match (a, b) { (ApiEndpointVersions::Until(x), ApiEndpointVersions::Until(y)) => !(exists|v: Version| vlt(v, x) && vlt(v, y)), _ => false })
}
spec fn vmax(a: Version, b: Version) -> Version { if vle(a, b) { b } else { a } }

/// closed form of "some version lies in both", case by case, in terms of end points only
spec fn overlap_closed(a: ApiEndpointVersions, b: ApiEndpointVersions) -> bool {
    match (a, b) {
        (ApiEndpointVersions::All, ApiEndpointVersions::Until(u)) => exists|v: Version| vlt(v, u),
        (ApiEndpointVersions::Until(u), ApiEndpointVersions::All) => exists|v: Version| vlt(v, u),
        (ApiEndpointVersions::All, _) => true,
        (_, ApiEndpointVersions::All) => true,
        (ApiEndpointVersions::From(x), ApiEndpointVersions::From(y)) => true,
        (ApiEndpointVersions::Until(x), ApiEndpointVersions::Until(y)) => exists|v: Version| vlt(v, x) && vlt(v, y),
        (ApiEndpointVersions::From(x), ApiEndpointVersions::Until(u)) => vlt(x, u),
        (ApiEndpointVersions::Until(u), ApiEndpointVersions::From(x)) => vlt(x, u),
        (ApiEndpointVersions::From(x), ApiEndpointVersions::FromUntil(p)) => in_range(b, vmax(x, p.earliest)),
        (ApiEndpointVersions::FromUntil(p), ApiEndpointVersions::From(x)) => in_range(a, vmax(x, p.earliest)),
        (ApiEndpointVersions::Until(u), ApiEndpointVersions::FromUntil(p)) => vlt(p.earliest, u),
        (ApiEndpointVersions::FromUntil(p), ApiEndpointVersions::Until(u)) => vlt(p.earliest, u),
        (ApiEndpointVersions::FromUntil(p), ApiEndpointVersions::FromUntil(q)) =>
            in_range(a, q.earliest) || in_range(b, p.earliest),
    }
}

proof fn overlap_witness(a: ApiEndpointVersions, b: ApiEndpointVersions)
    requires wf(a), wf(b)
    ensures shared(a, b) == overlap_closed(a, b)
{
    broadcast use vle_total, vle_antisym, vle_trans;
    let some: Version = arbitrary();
    if overlap_closed(a, b) {
        match (a, b) {
            (ApiEndpointVersions::All, ApiEndpointVersions::Until(u)) => { let v = choose|v: Version| vlt(v, u); assert(in_range(a, v) && in_range(b, v)); }
            (ApiEndpointVersions::Until(u), ApiEndpointVersions::All) => { let v = choose|v: Version| vlt(v, u); assert(in_range(a, v) && in_range(b, v)); }
            (ApiEndpointVersions::All, ApiEndpointVersions::All) => { assert(in_range(a, some) && in_range(b, some)); }
            (ApiEndpointVersions::All, ApiEndpointVersions::From(x)) => { assert(in_range(a, x) && in_range(b, x)); }
            (ApiEndpointVersions::From(x), ApiEndpointVersions::All) => { assert(in_range(a, x) && in_range(b, x)); }
            (ApiEndpointVersions::All, ApiEndpointVersions::FromUntil(p)) => { assert(in_range(a, p.earliest) && in_range(b, p.earliest)); }
            (ApiEndpointVersions::FromUntil(p), ApiEndpointVersions::All) => { assert(in_range(a, p.earliest) && in_range(b, p.earliest)); }
            (ApiEndpointVersions::From(x), ApiEndpointVersions::From(y)) => { let v = vmax(x, y); assert(in_range(a, v) && in_range(b, v)); }
            (ApiEndpointVersions::Until(x), ApiEndpointVersions::Until(y)) => { let v = choose|v: Version| vlt(v, x) && vlt(v, y); assert(in_range(a, v) && in_range(b, v)); }
            (ApiEndpointVersions::From(x), ApiEndpointVersions::Until(u)) => { assert(in_range(a, x) && in_range(b, x)); }
            (ApiEndpointVersions::Until(u), ApiEndpointVersions::From(x)) => { assert(in_range(a, x) && in_range(b, x)); }
            (ApiEndpointVersions::From(x), ApiEndpointVersions::FromUntil(p)) => { let v = vmax(x, p.earliest); assert(in_range(a, v) && in_range(b, v)); }
            (ApiEndpointVersions::FromUntil(p), ApiEndpointVersions::From(x)) => { let v = vmax(x, p.earliest); assert(in_range(a, v) && in_range(b, v)); }
            (ApiEndpointVersions::Until(u), ApiEndpointVersions::FromUntil(p)) => { assert(in_range(a, p.earliest) && in_range(b, p.earliest)); }
            (ApiEndpointVersions::FromUntil(p), ApiEndpointVersions::Until(u)) => { assert(in_range(a, p.earliest) && in_range(b, p.earliest)); }
            (ApiEndpointVersions::FromUntil(p), ApiEndpointVersions::FromUntil(q)) => {
                if in_range(a, q.earliest) { assert(in_range(a, q.earliest) && in_range(b, q.earliest)); }
                else { assert(in_range(a, p.earliest) && in_range(b, p.earliest)); }
            }
        }
    }
    if shared(a, b) {
        let v = choose|v: Version| in_range(a, v) && in_range(b, v);
        match (a, b) {
            (ApiEndpointVersions::FromUntil(p), ApiEndpointVersions::FromUntil(q)) => {
                if vle(p.earliest, q.earliest) { assert(in_range(a, q.earliest)); } else { assert(in_range(b, p.earliest)); }
            }
            _ => {}
        }
    }
}

} // verus!
fn main() {}
