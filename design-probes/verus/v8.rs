use vstd::prelude::*;
verus! {

// ---------------- trusted prelude (stand-ins for hyper/bytes/http-body) ----------------
#[verifier::external_body]
pub struct Bytes { _p: u8 }
pub uninterp spec fn bytes_len(b: &Bytes) -> nat;
impl Bytes {
    #[verifier::external_body]
    pub fn len(&self) -> (r: usize) ensures r as nat == bytes_len(self), r <= isize::MAX as usize { unimplemented!() }
}
#[verifier::external_body]
pub struct Frame { _p: u8 }
impl Frame {
    #[verifier::external_body]
    pub fn into_data(self) -> (r: Result<Bytes, Frame>) { unimplemented!() }
}
#[verifier::external_body]
pub struct BodyErr { _p: u8 }
#[verifier::external_body]
pub struct Body { _p: u8 }
impl Body {
    // `.frame().await` after await-erasure (rule W7)
    #[verifier::external_body]
    pub fn frame(&mut self) -> (r: Option<Result<Frame, BodyErr>>) { unimplemented!() }
}
pub struct HttpError { pub status: u16 }
impl HttpError {
    #[verifier::external_body]
    pub fn for_bad_request(code: Option<String>, msg: String) -> (r: HttpError) ensures r.status == 400 { unimplemented!() }
}
#[verifier::external_body]
pub fn http_dump_body(body: &mut Body) -> (r: Result<usize, BodyErr>) { unimplemented!() }
#[verifier::external_body]
pub fn fmt_opaque() -> String { unimplemented!() }

pub struct StreamingBody { body: Body, cap: usize }

pub open spec fn total(s: Seq<Bytes>) -> nat decreases s.len() {
    if s.len() == 0 { 0 } else { total(s.drop_last()) + bytes_len(&s.last()) }
}

// ---------------- extracted text: body of try_stream!{...} in StreamingBody::into_stream -------------
// rewrites: W7 `.await` erased; W8 `yield buf` -> out.push(buf); closures |e| -> |_e: BodyErr|; format! -> fmt_opaque()
#[verifier::exec_allows_no_decreases_clause]
fn into_stream_erased(mut this: StreamingBody, out: &mut Vec<Bytes>) -> (r: Result<(), HttpError>)
    requires old(out)@.len() == 0, this.cap <= usize::MAX - isize::MAX as usize,
    ensures total(final(out)@) <= this.cap,
            r is Err ==> r->Err_0.status == 400,
{
            let mut bytes_read: usize = 0;
            while let Some(frame_res) = this.body.frame()
                invariant bytes_read <= this.cap, total(out@) == bytes_read, this.cap <= usize::MAX - isize::MAX as usize,
            {
                let frame = match frame_res { Ok(f) => f, Err(_e) => { return Err(HttpError::for_bad_request(None, fmt_opaque())); } };
                let Ok(buf) = frame.into_data() else { continue }; // skip trailers
                let len = buf.len();

                if bytes_read + len > this.cap {
                    match http_dump_body(&mut this.body) { Ok(_) => {}, Err(_e) => { return Err(HttpError::for_bad_request(None, fmt_opaque())); } };
                    // TODO-correctness check status code
                    return Err(HttpError::for_bad_request(
                        None,
                        fmt_opaque(),
                    ));
                }

                bytes_read += len;
                proof { let s = out@.push(buf); assert(s.drop_last() == out@); }
                out.push(buf);
            }
            Ok(())
}

} // verus!
fn main() {}
