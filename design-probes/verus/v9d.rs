use vstd::prelude::*;
use std::collections::HashMap;
verus! {
pub broadcast axiom fn axiom_string_obeys_key_model()
    ensures #[trigger] vstd::std_specs::hash::obeys_key_model::<String>();
#[verifier::external_body]
pub struct TagDetails { _p: u8 }
#[verifier::external_body]
pub struct Opaque { _p: u8 }

pub enum EndpointTagPolicy { Any, AtLeastOne, ExactlyOne }
pub struct TagConfig {
    pub allow_other_tags: bool,
    pub policy: EndpointTagPolicy,
    pub tags: HashMap<String, TagDetails>,
}
pub struct ApiEndpoint<Context> {
    pub operation_id: String,
    pub handler: Opaque,
    pub tags: Vec<String>,
    pub visible: bool,
    pub ctx: core::marker::PhantomData<Context>,
}
pub struct ApiDescription<Context> {
    router: Opaque,
    tag_config: TagConfig,
    ctx: core::marker::PhantomData<Context>,
}
#[verifier::external_body]
pub fn fmt_opaque() -> String { unimplemented!() }

spec fn tags_ok<C>(d: ApiDescription<C>, e: ApiEndpoint<C>) -> bool {
    !e.visible || (
        (match d.tag_config.policy {
            EndpointTagPolicy::Any => true,
            EndpointTagPolicy::AtLeastOne => e.tags@.len() >= 1,
            EndpointTagPolicy::ExactlyOne => e.tags@.len() == 1,
        }) && (d.tag_config.allow_other_tags || forall|i: int| 0 <= i < e.tags@.len() ==> d.tag_config.tags@.contains_key(#[trigger] e.tags@[i]))
    )
}

impl<Context> ApiDescription<Context> {
    /// Validate that the tags conform to the tags policy.
    fn validate_tags(&self, e: &ApiEndpoint<Context>) -> (r: Result<(), String>)
        ensures
            r is Ok ==> tags_ok(*self, *e),
            tags_ok(*self, *e) ==> r is Ok,
    {
        broadcast use vstd::std_specs::hash::group_hash_axioms, axiom_string_obeys_key_model;
        // Don't care about endpoints that don't appear in the OpenAPI
        if !e.visible {
            return Ok(());
        }

        match (&self.tag_config.policy, e.tags.len()) {
            (EndpointTagPolicy::AtLeastOne, 0) => {
                return Err("At least one tag is required".to_string())
            }
            (EndpointTagPolicy::ExactlyOne, n) if n != 1 => {
                return Err("Exactly one tag is required".to_string())
            }
            _ => (),
        }

        if !self.tag_config.allow_other_tags {
            for tag in it: &e.tags
                invariant e.visible, !self.tag_config.allow_other_tags,
                    forall|i: int| 0 <= i < it.index@ ==> self.tag_config.tags@.contains_key(#[trigger] e.tags@[i]),
            {
                broadcast use vstd::std_specs::hash::group_hash_axioms, axiom_string_obeys_key_model;
                if !self.tag_config.tags.contains_key(tag) {
                    proof { assert(!self.tag_config.tags@.contains_key(e.tags@[it.index@ as int])); }
                    return Err(fmt_opaque());
                }
            }
        }

        Ok(())
    }
}
} // verus!
fn main() {}
