use vstd::prelude::*;
use std::str::FromStr;
verus! {
#[verifier::external_trait_specification]
pub trait ExFromStr: Sized {
    type ExternalTraitSpecificationFor: FromStr;
    type Err;
}
pub uninterp spec fn parse_spec<T>(s: Seq<char>) -> Option<T>;
pub assume_specification<F: FromStr>[str::parse::<F>](s: &str) -> (r: Result<F, F::Err>)
    ensures (r is Ok) == (parse_spec::<F>(s@) is Some), r is Ok ==> r->Ok_0 == parse_spec::<F>(s@)->Some_0;

#[verifier::external_body]
pub struct HeaderMap { _p: u8 }
#[verifier::external_body]
pub struct HeaderName { _p: u8 }
#[verifier::external_body]
pub struct HeaderValue { _p: u8 }
#[verifier::external_body]
pub struct ToStrError { _p: u8 }
pub uninterp spec fn hdr(h: &HeaderMap, n: &HeaderName) -> Option<HeaderValue>;
pub uninterp spec fn hv_str(v: &HeaderValue) -> Option<Seq<char>>;
impl HeaderMap {
    #[verifier::external_body]
    pub fn get(&self, n: &HeaderName) -> (r: Option<&HeaderValue>)
        ensures (r is Some) == (hdr(self, n) is Some), r is Some ==> *r->Some_0 == hdr(self, n)->Some_0 { unimplemented!() }
}
impl HeaderValue {
    #[verifier::external_body]
    pub fn to_str(&self) -> (r: Result<&str, ToStrError>)
        ensures (r is Ok) == (hv_str(self) is Some), r is Ok ==> r->Ok_0@ == hv_str(self)->Some_0 { unimplemented!() }
}
pub struct HttpError { pub status: u16 }
impl HttpError {
    #[verifier::external_body]
    pub fn for_bad_request(code: Option<String>, msg: String) -> (r: HttpError) ensures r.status == 400 { unimplemented!() }
}
#[verifier::external_body]
pub fn fmt_opaque() -> String { unimplemented!() }

fn parse_header<T>(
    headers: &HeaderMap,
    header_name: &HeaderName,
) -> (r: Result<T, HttpError>)
where
    T: FromStr,
    ensures
        (r is Ok) == (hdr(headers, header_name) is Some && hv_str(&hdr(headers, header_name)->Some_0) is Some
                      && parse_spec::<T>(hv_str(&hdr(headers, header_name)->Some_0)->Some_0) is Some),
        r is Ok ==> r->Ok_0 == parse_spec::<T>(hv_str(&hdr(headers, header_name)->Some_0)->Some_0)->Some_0,
        r is Err ==> r->Err_0.status == 400,
{
    let v_value = headers.get(header_name).ok_or_else(|| -> (e: HttpError) ensures e.status == 400 {
        HttpError::for_bad_request(
            None,
            fmt_opaque(),
        )
    })?;

    let v_str = v_value.to_str().map_err(|_e: ToStrError| -> (e: HttpError) ensures e.status == 400 {
        HttpError::for_bad_request(
            None,
            fmt_opaque(),
        )
    })?;

    v_str.parse::<T>().map_err(|e: <T as FromStr>::Err| -> (h: HttpError) ensures h.status == 400 {
        HttpError::for_bad_request(
            None,
            fmt_opaque(),
        )
    })
}
} // verus!
fn main() {}
