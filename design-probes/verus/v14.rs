use vstd::prelude::*;
verus! {
// ---- trusted stand-ins for http::response::Builder / hyper::Response / serde_json ----
#[verifier::external_body]
pub struct HeaderMapBox { _p: u8 }
pub uninterp spec fn hm_view(h: &HeaderMapBox) -> Seq<(Seq<char>, Seq<char>)>;
pub struct Body { pub bytes: Ghost<Seq<char>> }
pub struct Response { pub status: Ghost<int>, pub headers: Ghost<Seq<(Seq<char>, Seq<char>)>>, pub body: Ghost<Seq<char>> }
pub struct Builder { pub status: Ghost<int>, pub headers: Ghost<Seq<(Seq<char>, Seq<char>)>> }
#[verifier::external_body]
#[derive(Debug)]
pub struct BuildErr { _p: u8 }
pub struct ErrorStatusCode { pub code: u16 }
impl ErrorStatusCode {
    #[verifier::external_body]
    pub fn as_status(&self) -> (r: u16) ensures r == self.code { unimplemented!() }
}
#[verifier::external_body]
pub fn response_builder() -> (b: Builder) ensures b.status@ == 200, b.headers@ == Seq::<(Seq<char>, Seq<char>)>::empty() { unimplemented!() }
impl Builder {
    #[verifier::external_body]
    pub fn set_headers(&mut self, h: HeaderMapBox) ensures final(self).status@ == old(self).status@, final(self).headers@ == hm_view(&h) { unimplemented!() }
    #[verifier::external_body]
    pub fn status(self, s: u16) -> (b: Builder) ensures b.status@ == s as int, b.headers@ == self.headers@ { unimplemented!() }
    #[verifier::external_body]
    pub fn header(self, k: &str, v: &str) -> (b: Builder) ensures b.status@ == self.status@, b.headers@ == self.headers@.push((k@, v@)) { unimplemented!() }
    #[verifier::external_body]
    pub fn body(self, body: Body) -> (r: Result<Response, BuildErr>)
        ensures r is Ok, r->Ok_0.status@ == self.status@, r->Ok_0.headers@ == self.headers@, r->Ok_0.body@ == body.bytes@ { unimplemented!() }
}
pub struct HttpErrorResponseBody { pub request_id: String, pub error_code: Option<String>, pub message: String }
pub uninterp spec fn json_pretty(rid: Seq<char>, code: Option<Seq<char>>, msg: Seq<char>) -> Seq<char>;
pub open spec fn optv(o: Option<String>) -> Option<Seq<char>> { match o { Some(s) => Some(s@), None => None } }
#[verifier::external_body]
pub fn to_string_pretty(b: &HttpErrorResponseBody) -> (r: Result<String, BuildErr>) ensures r is Ok, r->Ok_0@ == json_pretty(b.request_id@, optv(b.error_code), b.message@) { unimplemented!() }
#[verifier::external_body]
pub fn body_from(s: String) -> (b: Body) ensures b.bytes@ == s@ { unimplemented!() }

pub struct HttpError {
    pub status_code: ErrorStatusCode,
    pub error_code: Option<String>,
    pub external_message: String,
    pub internal_message: String,
    pub headers: Option<HeaderMapBox>,
}
pub const CONTENT_TYPE_JSON: &'static str = "application/json";
pub const HEADER_REQUEST_ID: &'static str = "x-request-id";

impl HttpError {
    pub fn into_response(self, request_id: &str) -> (rsp: Response)
        ensures
            rsp.status@ == self.status_code.code,
            rsp.body@ == json_pretty(request_id@, optv(self.error_code), self.external_message@),
            ({ let base = match self.headers { Some(h) => hm_view(&h), None => Seq::empty() };
               rsp.headers@ == base.push(("content-type"@, CONTENT_TYPE_JSON@)).push((HEADER_REQUEST_ID@, request_id@)) }),
    {
        let mut builder = response_builder();
        if let Some(headers) = self.headers {
            builder.set_headers(headers);
        }
        builder
            .status(self.status_code.as_status())
            .header(
                "content-type",
                CONTENT_TYPE_JSON,
            )
            .header(HEADER_REQUEST_ID, request_id)
            .body(
                body_from(to_string_pretty(&HttpErrorResponseBody {
                    request_id: request_id.to_string(),
                    message: self.external_message,
                    error_code: self.error_code,
                })
                .unwrap()
                ),
            )
            .unwrap()
    }
}
} // verus!
fn main() {}
