#!/bin/sh
# MANIFEST.setup_cmd: build the framework from files on disk only (offline).
# 1. warm Verus (first run loads vstd); 2. compile the real crate's dependencies
# once under kani into /verif/.cache/kani-target so that per-check runs only rebuild
# the dropshot crate itself.
set -e
cd "$(dirname "$0")"
export CARGO_NET_OFFLINE=true
mkdir -p .cache /var/tmp/dropshot-verif
cat > /var/tmp/dropshot-verif/warm.rs <<'EOT'
use vstd::prelude::*;
verus! { proof fn warm() ensures 1 + 1 == 2int {} }
fn main() {}
EOT
(cd /var/tmp/dropshot-verif && verus warm.rs >/dev/null 2>&1 || true)
python3 tools/kx.py --warm
