#!/usr/bin/env python3
"""kx.py -- Kani units: the real crate, compiled in place.

On every run: rsync /repo's working tree to a scratch copy, append the
`#[cfg(kani)]` harness modules of kani/*.rs to the source files named in their
`//@ append <file>` lines (no line of the code under verification is altered),
run `cargo kani` on the requested harnesses and parse the per-harness result
files.  A failing harness is re-run with concrete playback and the generated
unit test is executed natively against the real code.

Harness files declare their harnesses:

    //@ append dropshot/src/error_status_code.rs
    //@ harness <name> property=<Cxx>[,<Cyy>] class=<complete|bounded> [tier=thorough] :: <contract in words>

class=complete  loop-free over full-domain symbolic inputs, or every unwinding
                assertion holds (checked on every run): counted as discharged
class=bounded   a bounded stand-in with the stated bound: counted separately,
                never as proved
"""
from __future__ import annotations

import fcntl
import glob
import json
import os
import re
import shutil
import subprocess
import sys
import time
from dataclasses import dataclass, field
from typing import Dict, List, Optional

VERIF = os.path.dirname(os.path.dirname(os.path.abspath(__file__)))
REPO = os.environ.get("VERIF_REPO", "/repo")
WORK = os.environ.get("VERIF_WORK", "/var/tmp/dropshot-verif")
SCRATCH = os.path.join(WORK, "kani-src")
TARGET = os.path.join(VERIF, ".cache", "kani-target")
PLAYBACK_TARGET = os.path.join(VERIF, ".cache", "kani-playback-target")
LOCK = os.path.join(WORK, "kani.lock")


@dataclass
class Harness:
    name: str
    unit: str
    file: str
    module: str
    properties: List[str]
    klass: str
    tier: str
    text: str
    expect: str = "pass"          # pass | fail (must-fail sentinel)

    @property
    def fq(self) -> str:
        return f"{self.module}::{self.name}"


def file_module(rel: str) -> str:
    p = rel.split("/src/", 1)[1]
    p = p[:-3]
    if p.endswith("/mod"):
        p = p[:-4]
    if p == "lib":
        return ""
    return p.replace("/", "::")


def macro_idents(relfile: str, impl_sel: str, macro: str) -> List[str]:
    """identifiers `NAME;` listed in `macro! { ... }` inside the selected impl of /repo's file"""
    sys.path.insert(0, os.path.dirname(os.path.abspath(__file__)))
    import rustlex as R
    src = R.Source(os.path.join(REPO, relfile))
    it = src.find(impl_sel)
    names = []
    for c in src.children(it):
        if c.kind == "macro" and c.name == macro:
            ct = src.ct
            for i in range(c.body_open + 1, c.body_close):
                if ct[i].kind == "ident" and ct[i + 1].text == ";" and ct[i - 1].text in ("{", ";", "]"):
                    names.append(ct[i].text)
    if not names:
        raise ValueError(f"no names found for {macro}! in {impl_sel}")
    return names


def load_units() -> Dict[str, dict]:
    """Parse kani/*.rs into {unit: {"appends": [(file, text)], "harnesses": [Harness]}}"""
    units = {}
    for path in sorted(glob.glob(os.path.join(VERIF, "kani", "*.rs"))):
        unit = os.path.basename(path)[:-3]
        appends = []
        harnesses = []
        cur_file = None
        buf: List[str] = []
        for line in open(path, encoding="utf-8"):
            m = re.match(r"//@\s*append\s+(\S+)", line)
            if m:
                if cur_file is not None:
                    appends.append((cur_file, "".join(buf)))
                cur_file = m.group(1)
                buf = []
                continue
            m = re.match(r"\s*//@\s*foreach\s+(\S+)\s*::\s*(.+?)\s*::\s*(\w+)\s*::\s*(.*)$", line)
            if m:
                try:
                    names = macro_idents(m.group(1), m.group(2), m.group(3))
                    indent = line[:len(line) - len(line.lstrip())]
                    for nm in names:
                        buf.append(indent + m.group(4).rstrip().replace("{NAME}", nm) + "\n")
                    buf.append(indent + f"// ({len(names)} names expanded from {m.group(3)}! in {m.group(2)})\n")
                except Exception as e:
                    buf.append(f"compile_error!(\"verif: foreach expansion failed: {str(e)[:100]}\");\n")
                continue
            m = re.match(r"\s*//@\s*harness\s+(\w+)\s+(.*?)\s*::\s*(.*)$", line)
            if m:
                kv = dict(x.split("=", 1) for x in m.group(2).split())
                harnesses.append((m.group(1), kv, m.group(3).strip(), cur_file))
            buf.append(line)
        if cur_file is not None:
            appends.append((cur_file, "".join(buf)))
        hs = []
        for name, kv, text, f in harnesses:
            mod = None
            # module name = first `mod X` in the append block of file f that contains the harness
            for af, atext in appends:
                if af == f and re.search(r"\bfn\s+" + re.escape(name) + r"\b|\b" + re.escape(name) + r"\b", atext):
                    mm = re.search(r"^\s*(?:pub(?:\([a-z]+\))?\s+)?mod\s+(\w+)", atext, re.M)
                    if mm:
                        mod = mm.group(1)
                        break
            fm = file_module(f)
            module = (fm + "::" if fm else "") + (mod or "")
            hs.append(Harness(name, unit, f, module, kv.get("property", "").split(","), kv.get("class", "bounded"),
                              kv.get("tier", "quick"), text, kv.get("expect", "pass")))
        units[unit] = {"appends": appends, "harnesses": hs, "path": path}
    return units


def prepare_scratch(units: Dict[str, dict]) -> None:
    os.makedirs(SCRATCH, exist_ok=True)
    subprocess.run(["rsync", "-a", "--delete", "--exclude", "/target", "--exclude", ".git", "--exclude", "/result_output_dir",
                    REPO + "/", SCRATCH + "/"], check=True)
    # cargo offline config for the scratch copy
    os.makedirs(os.path.join(SCRATCH, ".cargo"), exist_ok=True)
    cfgp = os.path.join(SCRATCH, ".cargo", "config.toml")
    cfg = open(cfgp).read() if os.path.exists(cfgp) else ""
    if "[net]" not in cfg:
        with open(cfgp, "a") as f:
            f.write("\n[net]\noffline = true\n")
    per_file: Dict[str, List[str]] = {}
    for unit, u in sorted(units.items()):
        for f, text in u["appends"]:
            per_file.setdefault(f, []).append(f"\n// ===== verif: kani unit {unit} (appended by tools/kx.py; cfg(kani) only) =====\n" + text)
    for f, texts in per_file.items():
        p = os.path.join(SCRATCH, f)
        if not os.path.exists(p):
            raise FileNotFoundError(f"append target {f} missing in /repo")
        st = os.stat(p)
        with open(p, "a", encoding="utf-8") as fh:
            fh.write("".join(texts))
        # keep mtime monotone but deterministic enough: cargo fingerprints by mtime; content changed => rebuild
    shutil.rmtree(os.path.join(SCRATCH, "result_output_dir"), ignore_errors=True)


@dataclass
class HarnessResult:
    harness: str
    fq: str
    unit: str
    klass: str
    status: str = "undecided"       # ok | failed | undecided
    reason: str = ""
    checks: int = 0
    failed_checks: List[dict] = field(default_factory=list)
    unwinding_checks: int = 0
    unwinding_failed: int = 0
    covers: int = 0
    covers_unsat: int = 0
    time_s: float = 0.0
    complete: bool = False
    text: str = ""
    playback: Optional[dict] = None


_CHECK_RE = re.compile(r"^Check (\d+): (.*)$")


def parse_result_file(path: str) -> dict:
    out = {"checks": [], "verdict": None, "time": None, "summary": None}
    cur = None
    for line in open(path, encoding="utf-8", errors="replace"):
        line = line.rstrip("\n")
        m = _CHECK_RE.match(line)
        if m:
            cur = {"id": m.group(2), "status": None, "description": "", "location": ""}
            out["checks"].append(cur)
            continue
        s = line.strip()
        if cur is not None and s.startswith("- Status:"):
            cur["status"] = s.split(":", 1)[1].strip()
        elif cur is not None and s.startswith("- Description:"):
            cur["description"] = s.split(":", 1)[1].strip().strip('"')
        elif cur is not None and s.startswith("- Location:"):
            cur["location"] = s.split(":", 1)[1].strip()
        elif s.startswith("** "):
            out["summary"] = s
        elif s.startswith("VERIFICATION:-"):
            out["verdict"] = s.split(":-", 1)[1].strip()
        elif s.startswith("Verification Time:"):
            try:
                out["time"] = float(s.split(":", 1)[1].strip().rstrip("s"))
            except ValueError:
                pass
    return out


def cargo_kani(args: List[str], timeout: int, log_path: str, target: str = TARGET) -> subprocess.CompletedProcess:
    env = dict(os.environ)
    env["CARGO_NET_OFFLINE"] = "true"
    env["CARGO_TARGET_DIR"] = target
    env.setdefault("CARGO_TERM_COLOR", "never")
    cmd = ["cargo", "kani"] + args
    with open(log_path, "w") as lf:
        lf.write("$ " + " ".join(cmd) + "\n")
        lf.flush()
        try:
            p = subprocess.run(cmd, cwd=SCRATCH, env=env, stdout=lf, stderr=subprocess.STDOUT, timeout=timeout)
            return p
        except subprocess.TimeoutExpired:
            # kill stragglers (cbmc children)
            subprocess.run(["pkill", "-f", "cbmc.*kani-target"], check=False)
            lf.write("\nTIMEOUT\n")
            return subprocess.CompletedProcess(cmd, 124)


def run(harness_names: List[str], tier: str = "quick", jobs: int = 16, harness_timeout: int = 600, playback: bool = True) -> Dict[str, HarnessResult]:
    units = load_units()
    allh = {h.name: h for u in units.values() for h in u["harnesses"]}
    missing = [n for n in harness_names if n not in allh]
    res: Dict[str, HarnessResult] = {}
    for n in missing:
        res[n] = HarnessResult(n, n, "?", "?", "undecided", "harness not declared in kani/*.rs")
    sel = [allh[n] for n in harness_names if n in allh]
    if not sel:
        return res
    os.makedirs(WORK, exist_ok=True)
    os.makedirs(TARGET, exist_ok=True)
    with open(LOCK, "w") as lk:
        fcntl.flock(lk, fcntl.LOCK_EX)
        try:
            prepare_scratch(units)
        except Exception as e:
            for h in sel:
                res[h.name] = HarnessResult(h.name, h.fq, h.unit, h.klass, "undecided", f"scratch preparation failed: {e}", text=h.text)
            return res
        args = ["-p", "dropshot", "-Z", "function-contracts", "-Z", "stubbing", "-Z", "unstable-options", "-Z", "async-lib",
                "--exact", "-j", str(jobs), "--output-format=terse", "--output-into-files",
                "--harness-timeout", f"{harness_timeout}s"]
        for h in sel:
            args += ["--harness", h.fq]
        log = os.path.join(WORK, f"kani-run-{os.getpid()}.log")
        t0 = time.time()
        p = cargo_kani(args, timeout=harness_timeout * max(1, (len(sel) + jobs - 1) // jobs) + 900, log_path=log)
        wall = time.time() - t0
        logtxt = open(log, errors="replace").read()
        build_failed = ("error: could not compile" in logtxt) or ("error[E" in logtxt and "Checking harness" not in logtxt)
        rdir = os.path.join(SCRATCH, "result_output_dir")
        for h in sel:
            hr = HarnessResult(h.name, h.fq, h.unit, h.klass, text=h.text)
            res[h.name] = hr
            rf = os.path.join(rdir, h.fq)
            if build_failed:
                hr.reason = "build of the scratch copy failed under cfg(kani) (harness no longer compiles against /repo): " + _first_error(logtxt)
                continue
            if os.path.exists(rf) and "CBMC timed out" in open(rf, errors="replace").read():
                hr.reason = f"CBMC timed out after {harness_timeout}s"
                continue
            if not os.path.exists(rf):
                hr.reason = "no result file (timeout or kani error); see " + log
                if f"{h.fq}" in logtxt and "timed out" in logtxt:
                    hr.reason = f"harness timed out after {harness_timeout}s"
                continue
            pr = parse_result_file(rf)
            hr.checks = len(pr["checks"])
            hr.time_s = pr["time"] or 0.0
            fails = []
            for c in pr["checks"]:
                st = c["status"] or ""
                is_unw = "unwinding assertion" in c["description"]
                is_cover = ".cover." in c["id"] or c["description"].startswith("cover")
                if is_unw:
                    hr.unwinding_checks += 1
                    if st != "SUCCESS":
                        hr.unwinding_failed += 1
                    continue
                if is_cover:
                    hr.covers += 1
                    if st not in ("SATISFIED",):
                        hr.covers_unsat += 1
                    continue
                if st in ("FAILURE",):
                    fails.append(c)
                elif st in ("UNDETERMINED",):
                    # consequence of a failed unwinding assertion; not a verdict
                    pass
            hr.failed_checks = fails
            verdict = pr["verdict"]
            if verdict is None:
                hr.reason = "no verdict in result file"
                continue
            if hr.covers_unsat:
                hr.status = "undecided"
                hr.reason = f"vacuity: {hr.covers_unsat} of {hr.covers} kani::cover! points unreachable (assumptions exclude everything?)"
                continue
            if fails:
                hr.status = "failed"
                hr.reason = "; ".join(sorted({f"{c['description']} @ {c['location'].split(' in function')[0]}" for c in fails}))[:1500]
            elif hr.unwinding_failed:
                hr.status = "undecided"
                hr.reason = f"unwinding bound too small for the current code ({hr.unwinding_failed} unwinding assertion(s) failed)"
            elif verdict.startswith("SUCCESSFUL"):
                hr.status = "ok"
                hr.complete = (h.klass == "complete")
            else:
                hr.status = "undecided"
                hr.reason = f"verdict {verdict} without a failing property check"
        # concrete playback for failures
        if playback:
            for h in sel:
                hr = res[h.name]
                if hr.status == "failed" and h.expect == "pass":
                    try:
                        hr.playback = concrete_playback(h, harness_timeout)
                    except Exception as e:  # never let replay problems mask the verdict
                        hr.playback = {"error": str(e)}
    # must-fail sentinels
    for h in sel:
        hr = res[h.name]
        if h.expect == "fail":
            if hr.status == "failed":
                hr.status = "ok"
                hr.reason = "must-fail sentinel failed as required"
                hr.failed_checks = []
            elif hr.status == "ok":
                hr.status = "undecided"
                hr.reason = "vacuity: must-fail sentinel was verified"
    return res


def _first_error(log: str) -> str:
    m = re.search(r"^error(\[E\d+\])?:.*(?:\n.*){0,6}", log, re.M)
    return (m.group(0) if m else log[-600:])[:800]


def concrete_playback(h: Harness, harness_timeout: int) -> dict:
    """Re-run one failing harness with concrete playback; then run the generated
    unit test natively against the real code (scratch copy of /repo's tree)."""
    info: dict = {"harness": h.fq}
    log = os.path.join(WORK, f"kani-playback-{h.name}.log")
    args = ["-p", "dropshot", "-Z", "function-contracts", "-Z", "stubbing", "-Z", "unstable-options", "-Z", "concrete-playback",
            "--concrete-playback=inplace", "--exact", "--harness", h.fq, "--harness-timeout", f"{harness_timeout}s"]
    before = open(os.path.join(SCRATCH, h.file), encoding="utf-8").read()
    cargo_kani(args, timeout=harness_timeout + 600, log_path=log)
    after = open(os.path.join(SCRATCH, h.file), encoding="utf-8").read()
    m = re.search(r"fn (kani_concrete_playback_" + re.escape(h.name) + r"_\d+)\s*\(\s*\)", after)
    if not m or after == before:
        info["note"] = "Kani produced no concrete playback test for this failure"
        return info
    test = m.group(1)
    # the test text
    i = after.rfind("#[test]", 0, m.start())
    j = after.find("\n}", m.end())
    ttext = after[i:j + 2]
    info["test_name"] = test
    info["test_text"] = ttext
    vals = re.findall(r"//\s*(.+?)\n\s*vec!\[([0-9, ]*)\]", ttext)
    info["concrete_values"] = [{"value": v.strip(), "bytes": [int(x) for x in b.replace(" ", "").split(",") if x]} for v, b in vals]
    # native replay
    plog = os.path.join(WORK, f"kani-playback-native-{h.name}.log")
    p = cargo_kani(["playback", "-Z", "concrete-playback", "-p", "dropshot", "--", test], timeout=1800, log_path=plog, target=PLAYBACK_TARGET)
    out = open(plog, errors="replace").read()
    info["native_exit"] = p.returncode
    mm = re.search(r"test result: (\w+)\. (\d+) passed; (\d+) failed", out)
    if mm:
        info["native_result"] = mm.group(0)
        info["replayed_on_real_code"] = (mm.group(1) == "FAILED" and int(mm.group(3)) >= 1)
    pm = re.search(r"panicked at ([^\n]*)\n([^\n]*)", out)
    if pm:
        info["native_panic"] = (pm.group(1) + " " + pm.group(2))[:400]
    return info


def warm(jobs: int = 16) -> int:
    """setup: compile all dependencies once (and the playback target lazily)."""
    units = load_units()
    names = [h.name for u in units.values() for h in u["harnesses"] if h.name.startswith("k0_")][:1]
    if not names:
        names = [h.name for u in units.values() for h in u["harnesses"]][:1]
    r = run(names, playback=False)
    for n, hr in r.items():
        print(f"warm: {n}: {hr.status} {hr.reason}")
    return 0 if all(hr.status == "ok" for hr in r.values()) else 2


def main(argv):
    import argparse
    ap = argparse.ArgumentParser()
    ap.add_argument("harness", nargs="*")
    ap.add_argument("--list", action="store_true")
    ap.add_argument("--warm", action="store_true")
    ap.add_argument("--unit")
    ap.add_argument("--no-playback", action="store_true")
    ap.add_argument("--timeout", type=int, default=600)
    ap.add_argument("-j", type=int, default=16)
    a = ap.parse_args(argv)
    units = load_units()
    if a.list:
        for u, d in units.items():
            for h in d["harnesses"]:
                print(f"{u}\t{h.fq}\t{','.join(h.properties)}\t{h.klass}\t{h.tier}\t{h.text}")
        return 0
    if a.warm:
        return warm(a.j)
    names = list(a.harness)
    if a.unit:
        names += [h.name for h in units[a.unit]["harnesses"]]
    res = run(names, jobs=a.j, harness_timeout=a.timeout, playback=not a.no_playback)
    rc = 0
    for n, hr in res.items():
        print(f"{hr.status:9s} {n:40s} checks={hr.checks} unwind={hr.unwinding_checks - hr.unwinding_failed}/{hr.unwinding_checks} covers={hr.covers - hr.covers_unsat}/{hr.covers} t={hr.time_s:.1f}s {hr.reason[:300]}")
        if hr.playback:
            print("   playback:", json.dumps({k: v for k, v in hr.playback.items() if k != "test_text"})[:1500])
        if hr.status == "failed":
            rc = max(rc, 1)
        elif hr.status == "undecided":
            rc = max(rc, 2) if rc != 1 else rc
    return rc


if __name__ == "__main__":
    sys.exit(main(sys.argv[1:]))
