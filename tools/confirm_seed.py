#!/usr/bin/env python3
"""Confirm a seeded change in a scratch worktree (outside /repo and /verif):
 1. change applied  -> the whole existing suite still passes
 2. change + demo   -> the demonstration FAILS
 3. demo only       -> the demonstration PASSES
usage: confirm_seed.py <dir with change.diff/demo.diff> <out.json>"""
import json, os, re, subprocess, sys
WT = "/tmp/wt-confirm"

def sh(cmd, cwd=WT, timeout=3600):
    p = subprocess.run(cmd, shell=True, cwd=cwd, capture_output=True, text=True, timeout=timeout)
    return p.returncode, p.stdout + p.stderr

def clean():
    sh("git checkout -- . && git clean -fdq -e target")

def demo_cmd(demo_path):
    d = open(demo_path).read()
    cmds = []
    for m in re.finditer(r"^\+\+\+ b/dropshot/tests/(?:integration-tests/)?([A-Za-z0-9_]+)\.rs", d, re.M):
        cmds.append(f"cargo test --offline -p dropshot --test {m.group(1)}")
    mods = re.findall(r"^\+\s*mod\s+([A-Za-z0-9_]+)\s*\{", d, re.M)
    if re.search(r"^\+\+\+ b/dropshot/src/", d, re.M) and mods:
        for md in mods:
            cmds.append(f"cargo test --offline -p dropshot --lib {md}")
    if re.search(r"^\+\+\+ b/dropshot/src/", d, re.M) and not mods:
        # tests added inside an existing #[cfg(test)] module: run them by function name
        for fn in re.findall(r"^\+\s*(?:async\s+)?fn\s+(test_[A-Za-z0-9_]+|[A-Za-z0-9_]*demo[A-Za-z0-9_]*)\s*\(", d, re.M):
            cmds.append(f"cargo test --offline -p dropshot --lib {fn}")
    return cmds

def run_demo(cmds):
    ok = True
    out = ""
    for c in cmds:
        rc, o = sh(c)
        out += f"$ {c}\n" + "\n".join(l for l in o.splitlines() if l.startswith("test ") or "test result" in l or "panicked" in l or l.startswith("error"))[-3000:] + "\n"
        if rc != 0:
            ok = False
    return ok, out

def main():
    d, outp = sys.argv[1], sys.argv[2]
    ch, dm = os.path.join(d, "change.diff"), os.path.join(d, "demo.diff")
    if not os.path.exists(WT):
        subprocess.run(["git", "-C", "/repo", "worktree", "add", "-q", WT, "HEAD"], check=True)
    res = {"dir": d}
    clean()
    rc, o = sh(f"git apply {ch}")
    res["change_applies"] = rc == 0
    rc, o = sh("cargo test --workspace --no-fail-fast --offline 2>&1")
    failed = sorted(set(re.findall(r"^test (\S+) \.\.\. FAILED", o, re.M)))
    res["suite_exit_with_change"] = rc
    res["suite_failed_tests_first_run"] = failed
    # fixed-port tests can collide with other runs on this machine: re-run the failures alone, once
    still = []
    for t in failed:
        rc2, o2 = sh(f"cargo test --workspace --offline -- --exact {t} 2>&1")
        if rc2 != 0 and re.search(r"test result: FAILED", o2):
            still.append(t)
    res["suite_failed_tests_after_rerun"] = still
    res["suite_passes_with_change"] = (rc == 0) or (failed and not still)
    res["suite_summary"] = re.findall(r"^test result: .*$", o, re.M)
    cmds = demo_cmd(dm)
    res["demo_cmds"] = cmds
    rc, o = sh(f"git apply {dm}")
    res["demo_applies_on_change"] = rc == 0
    ok, out = run_demo(cmds)
    res["demo_fails_with_change"] = not ok
    res["demo_output_with_change"] = out[-2500:]
    sh(f"git apply -R {ch}")
    ok, out = run_demo(cmds)
    res["demo_passes_without_change"] = ok
    res["demo_output_without_change"] = out[-1500:]
    clean()
    res["confirmed"] = bool(res["change_applies"] and res["suite_passes_with_change"] and res["demo_fails_with_change"] and res["demo_passes_without_change"] and cmds)
    json.dump(res, open(outp, "w"), indent=1)
    print(d, "confirmed" if res["confirmed"] else "NOT CONFIRMED", {k: res[k] for k in ("suite_passes_with_change", "demo_fails_with_change", "demo_passes_without_change")})

main()
