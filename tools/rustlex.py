"""A small Rust lexer and item locator used by the Verus extractor (vx.py) and
the Kani injector (kx.py).

It understands exactly what is needed to find items by *name* (never by line
number) and to copy their text verbatim: line/block (nested) comments, string,
raw-string, byte-string and char literals, lifetimes, numbers, identifiers and
punctuation, with byte offsets.  It does not parse Rust; every higher-level
operation (find the body of `fn x`, find the n-th closure, ...) is done on the
token stream with bracket matching.
"""
from __future__ import annotations

import re
from dataclasses import dataclass
from typing import List, Optional, Tuple


class ExtractError(Exception):
    """The requested item/anchor could not be located unambiguously.

    This is always reported as UNDECIDED (never as a violation)."""


@dataclass
class Tok:
    kind: str  # ident | lifetime | str | char | num | punct | comment | ws
    text: str
    start: int
    end: int

    def __repr__(self):
        return f"{self.kind}:{self.text!r}@{self.start}"


_IDENT_START = re.compile(r"[A-Za-z_]")
_IDENT = re.compile(r"[A-Za-z_][A-Za-z0-9_]*")
_NUM = re.compile(r"[0-9][0-9A-Za-z_]*(\.[0-9][0-9A-Za-z_]*)?")
_PUNCT3 = ("..=", "...", "<<=", ">>=")
_PUNCT2 = ("::", "->", "=>", "==", "!=", "<=", ">=", "&&", "||", "..", "+=", "-=",
           "*=", "/=", "%=", "^=", "&=", "|=")


def lex(src: str) -> List[Tok]:
    toks: List[Tok] = []
    i = 0
    n = len(src)
    while i < n:
        c = src[i]
        # whitespace
        if c.isspace():
            j = i + 1
            while j < n and src[j].isspace():
                j += 1
            toks.append(Tok("ws", src[i:j], i, j))
            i = j
            continue
        # comments
        if src.startswith("//", i):
            j = src.find("\n", i)
            if j < 0:
                j = n
            toks.append(Tok("comment", src[i:j], i, j))
            i = j
            continue
        if src.startswith("/*", i):
            depth = 1
            j = i + 2
            while j < n and depth > 0:
                if src.startswith("/*", j):
                    depth += 1
                    j += 2
                elif src.startswith("*/", j):
                    depth -= 1
                    j += 2
                else:
                    j += 1
            toks.append(Tok("comment", src[i:j], i, j))
            i = j
            continue
        # raw strings / byte strings / raw identifiers
        m = re.match(r"(b|c)?r(#*)\"", src[i:i + 40])
        if m:
            hashes = m.group(2)
            close = '"' + hashes
            j = src.find(close, i + m.end())
            if j < 0:
                raise ExtractError(f"unterminated raw string at {i}")
            j += len(close)
            toks.append(Tok("str", src[i:j], i, j))
            i = j
            continue
        if c == '"' or (c in "bc" and i + 1 < n and src[i + 1] == '"'):
            j = i + (1 if c == '"' else 2)
            while j < n and src[j] != '"':
                if src[j] == "\\":
                    j += 1
                j += 1
            j += 1
            toks.append(Tok("str", src[i:j], i, j))
            i = j
            continue
        if c == "'" or (c == "b" and i + 1 < n and src[i + 1] == "'"):
            k = i + (0 if c == "'" else 1)
            # lifetime or char?
            m = re.match(r"'([A-Za-z_][A-Za-z0-9_]*)", src[k:k + 80])
            if c == "'" and m and not src.startswith("'", k + m.end()):
                j = k + m.end()
                toks.append(Tok("lifetime", src[i:j], i, j))
                i = j
                continue
            j = k + 1
            while j < n and src[j] != "'":
                if src[j] == "\\":
                    j += 1
                j += 1
            j += 1
            toks.append(Tok("char", src[i:j], i, j))
            i = j
            continue
        if _IDENT_START.match(c):
            if src.startswith("r#", i) and i + 2 < n and _IDENT_START.match(src[i + 2]):
                m = _IDENT.match(src, i + 2)
            else:
                m = _IDENT.match(src, i)
            j = m.end()
            toks.append(Tok("ident", src[i:j], i, j))
            i = j
            continue
        if c.isdigit():
            m = _NUM.match(src, i)
            j = m.end()
            # `1..2` : do not swallow the range dots
            txt = src[i:j]
            if ".." in src[i:j + 1] and "." in txt:
                j = i + txt.index(".")
            toks.append(Tok("num", src[i:j], i, j))
            i = j
            continue
        for p in _PUNCT3:
            if src.startswith(p, i):
                toks.append(Tok("punct", p, i, i + 3))
                i += 3
                break
        else:
            for p in _PUNCT2:
                if src.startswith(p, i):
                    toks.append(Tok("punct", p, i, i + 2))
                    i += 2
                    break
            else:
                toks.append(Tok("punct", c, i, i + 1))
                i += 1
    return toks


def code_tokens(toks: List[Tok]) -> List[Tok]:
    return [t for t in toks if t.kind not in ("ws", "comment")]


OPEN = {"(": ")", "[": "]", "{": "}"}
CLOSE = {v: k for k, v in OPEN.items()}


def match_close(ct: List[Tok], i: int) -> int:
    """ct[i] is an opening bracket; return the index of its matching close."""
    assert ct[i].text in OPEN, ct[i]
    depth = 0
    j = i
    while j < len(ct):
        t = ct[j]
        if t.kind == "punct":
            if t.text in OPEN:
                depth += 1
            elif t.text in CLOSE:
                depth -= 1
                if depth == 0:
                    return j
        j += 1
    raise ExtractError(f"unbalanced bracket at offset {ct[i].start}")


def skip_generics(ct: List[Tok], i: int) -> int:
    """ct[i] is `<`; return index just after the matching `>` (angle depth
    tracking that ignores `->` / `=>` / comparison since those never occur in
    generic parameter lists of the items we look at)."""
    assert ct[i].text == "<"
    depth = 0
    j = i
    while j < len(ct):
        t = ct[j]
        if t.kind == "punct":
            if t.text == "<":
                depth += 1
            elif t.text == ">":
                depth -= 1
                if depth == 0:
                    return j + 1
            elif t.text in OPEN:
                j = match_close(ct, j)
        j += 1
    raise ExtractError(f"unbalanced generics at offset {ct[i].start}")


ITEM_KW = ("fn", "struct", "enum", "impl", "const", "static", "trait", "mod", "type", "use", "macro_rules")
QUALIFIERS = ("pub", "async", "unsafe", "const", "extern", "default",
              # Verus function modes (only ever seen in assembled files)
              "spec", "proof", "exec", "open", "closed", "uninterp", "broadcast", "axiom")


@dataclass
class Item:
    kind: str           # fn | struct | enum | impl | const | mod | ...
    name: str           # for impl: normalised header text, e.g. "impl ApiEndpointVersions"
    start: int          # byte offset of first token of the item proper (after attributes)
    attr_start: int     # byte offset of first attribute / doc comment attached to it
    end: int            # byte offset one past the closing `}` or `;`
    body_open: Optional[int]   # index into ct of `{` (None for `;`-terminated)
    body_close: Optional[int]
    first_tok: int      # index into ct
    last_tok: int
    is_test: bool = False


def _norm(ct: List[Tok], a: int, b: int) -> str:
    out = []
    for t in ct[a:b]:
        out.append(t.text)
    s = " ".join("\x00" if x == "::" else x for x in out)
    s = re.sub(r"\s*<\s*", "<", s)
    s = re.sub(r"\s*>", ">", s)
    s = re.sub(r"\s*,\s*", ", ", s)
    s = re.sub(r"\s*:\s*", ": ", s)
    s = re.sub(r"& ", "&", s)
    s = re.sub(r"\s*\x00\s*", "::", s)
    return s


def items_in(ct: List[Tok], lo: int, hi: int) -> List[Item]:
    """Enumerate the items between code-token indices [lo, hi) (one nesting
    level: the file, or the inside of an `impl`/`mod`/`trait` block)."""
    items: List[Item] = []
    i = lo
    while i < hi:
        t = ct[i]
        attr_first = i
        is_test = False
        # attributes
        while i < hi and ct[i].text == "#":
            j = i + 1
            if ct[j].text == "!":
                j += 1
            if ct[j].text != "[":
                break
            k = match_close(ct, j)
            txt = _norm(ct, j, k + 1)
            if "cfg" in txt and "test" in txt:
                is_test = True
            i = k + 1
        if i >= hi:
            break
        first = i
        # qualifiers
        while i < hi and ct[i].kind == "ident" and ct[i].text in QUALIFIERS:
            if ct[i].text == "pub" and ct[i + 1].text == "(":
                i = match_close(ct, i + 1) + 1
                continue
            if ct[i].text == "extern" and ct[i + 1].kind == "str":
                i += 2
                continue
            if ct[i].text == "const" and not (ct[i + 1].kind == "ident" and ct[i + 1].text in ("fn", "unsafe", "async", "extern")):
                break
            i += 1
        if i >= hi:
            break
        kw = ct[i]
        if kw.kind == "ident" and kw.text in ITEM_KW:
            kind = kw.text
            j = i + 1
            if kind == "impl":
                # header runs to the body `{`
                k = j
                while k < hi and ct[k].text != "{":
                    if ct[k].text == "<":
                        k = skip_generics(ct, k)
                        continue
                    if ct[k].text in OPEN:
                        k = match_close(ct, k) + 1
                        continue
                    k += 1
                name = _norm(ct, i, k)
                bo = k
                bc = match_close(ct, bo)
                items.append(Item(kind, name, ct[first].start, ct[attr_first].start, ct[bc].end, bo, bc, first, bc, is_test))
                i = bc + 1
                continue
            name = ct[j].text if j < hi else ""
            if kind == "macro_rules":
                name = ct[j + 1].text
            # find the end: `;` or `{...}` at depth 0
            k = j
            bo = bc = None
            while k < hi:
                tt = ct[k].text
                if ct[k].kind == "punct":
                    if tt == ";":
                        end = k
                        break
                    if tt == "{":
                        bo = k
                        bc = match_close(ct, k)
                        end = bc
                        break
                    if tt in OPEN:
                        k = match_close(ct, k) + 1
                        continue
                    if tt == "<" and kind in ("fn", "struct", "enum", "trait", "type") and k == j + 1:
                        k = skip_generics(ct, k)
                        continue
                k += 1
            else:
                raise ExtractError(f"unterminated item {kind} {name}")
            # tuple struct: `struct X(..);` handled by `;` rule; struct with body and no `;` ok
            items.append(Item(kind, name, ct[first].start, ct[attr_first].start, ct[end].end, bo, bc, first, end, is_test))
            i = end + 1
            continue
        # macro invocation at item level, e.g. `foo! { ... }` or `foo!(...);`
        if kw.kind == "ident" and i + 1 < hi and ct[i + 1].text == "!":
            k = i + 2
            if ct[k].kind == "ident":
                k += 1
            if ct[k].text in OPEN:
                e = match_close(ct, k)
                if e + 1 < hi and ct[e + 1].text == ";":
                    e += 1
                items.append(Item("macro", kw.text, ct[first].start, ct[attr_first].start, ct[e].end, k, match_close(ct, k), first, e, is_test))
                i = e + 1
                continue
        # unknown token at item level; skip it
        i += 1
    return items


class Source:
    def __init__(self, path: str, text: Optional[str] = None):
        self.path = path
        self.text = text if text is not None else open(path, encoding="utf-8").read()
        self.toks = lex(self.text)
        self.ct = code_tokens(self.toks)
        self._line_starts = [0]
        for m in re.finditer("\n", self.text):
            self._line_starts.append(m.end())

    def line_of(self, off: int) -> int:
        import bisect
        return bisect.bisect_right(self._line_starts, off)

    def top_items(self) -> List[Item]:
        return items_in(self.ct, 0, len(self.ct))

    def children(self, it: Item) -> List[Item]:
        if it.body_open is None:
            return []
        return items_in(self.ct, it.body_open + 1, it.body_close)

    def find(self, path: str) -> Item:
        """Locate an item by a '/'-separated path of selectors.

        selector forms:  `fn NAME`, `struct NAME`, `enum NAME`, `const NAME`,
        `mod NAME`, `trait NAME`, `macro NAME`, or `impl HEADER-REGEX` where the
        regex is matched (fullmatch) against the normalised impl header
        (e.g. `impl ApiEndpointVersions`, `impl<.*> ApiDescription<Context>`).
        Items under `#[cfg(test)]` are ignored.  Zero or several matches raise
        ExtractError."""
        scope = [it for it in self.top_items() if not it.is_test]
        found: Optional[Item] = None
        parts = [p.strip() for p in path.split("/")]
        for depth, sel in enumerate(parts):
            # `impl X [fn new]`: of several impl blocks with the same header, the one that has this child item
            having = None
            mh = re.search(r"\[([a-z_]+) ([A-Za-z0-9_]+)\]\s*$", sel)
            if mh:
                having = (mh.group(1), mh.group(2))
                sel = sel[:mh.start()].strip()
            mk = re.match(r"[a-z_]+", sel)
            kind = mk.group(0)
            pat = sel[mk.end():].strip()
            cands = []
            for it in scope:
                if it.kind != kind:
                    continue
                if kind == "impl":
                    if re.fullmatch(pat, it.name[len("impl"):].strip()):
                        cands.append(it)
                elif it.name == pat:
                    cands.append(it)
            if having:
                cands = [c for c in cands if any(k.kind == having[0] and k.name == having[1] for k in self.children(c))]
            if len(cands) != 1:
                raise ExtractError(
                    f"{self.path}: selector '{sel}' of '{path}' matched {len(cands)} items"
                    + (": " + "; ".join(c.name for c in cands) if cands else ""))
            found = cands[0]
            if depth + 1 < len(parts):
                scope = [c for c in self.children(found) if not c.is_test]
        assert found is not None
        return found

    def find_all(self, kind: str, name_regex: str) -> List[Item]:
        return [it for it in self.top_items() if it.kind == kind and not it.is_test and re.fullmatch(name_regex, it.name)]

    def text_of(self, it: Item) -> str:
        return self.text[it.start:it.end]


# ---------------------------------------------------------------------------
# token-level helpers on a fragment of text (used by the rewrite rules)


class Frag:
    """A piece of Rust text with an edit list applied by byte offset."""

    def __init__(self, text: str):
        self.text = text
        self.toks = lex(text)
        self.ct = code_tokens(self.toks)
        self.edits: List[Tuple[int, int, str]] = []

    def replace(self, start: int, end: int, new: str):
        self.edits.append((start, end, new))

    def insert(self, at: int, new: str):
        self.edits.append((at, at, new))

    def apply(self) -> str:
        out = []
        pos = 0
        # stable sort: same-offset insertions keep the order they were requested in
        for k, (s, e, new) in sorted(enumerate(self.edits), key=lambda x: (x[1][0], x[1][1], x[0])):
            if s < pos:
                raise ExtractError(f"overlapping edits at {s} (<{pos}): {new[:40]!r}")
            out.append(self.text[pos:s])
            out.append(new)
            pos = e
        out.append(self.text[pos:])
        return "".join(out)


def find_seq(ct: List[Tok], seq: List[str], lo: int = 0, hi: Optional[int] = None) -> List[int]:
    """indices i such that ct[i:i+len(seq)] texts equal seq"""
    hi = len(ct) if hi is None else hi
    res = []
    n = len(seq)
    for i in range(lo, hi - n + 1):
        if all(ct[i + k].text == seq[k] for k in range(n)):
            res.append(i)
    return res


def tokenize_pattern(p: str) -> List[str]:
    return [t.text for t in code_tokens(lex(p))]


_EXPR_START_PREV = {"(", ",", "=", "{", ";", "=>", "return", "move", "[", "&&", "||", "!", ":", "|", "+", "-", "*", "/", "else", "in"}


def closures(ct: List[Tok], lo: int, hi: int) -> List[Tuple[int, int, int, int]]:
    """Find closures between token indices [lo,hi).  Returns a list of
    (hdr_first, hdr_last, body_first, body_last) token indices, in source
    order.  hdr is `|..|` or `||` (with an optional leading `move`)."""
    res = []
    i = lo
    while i < hi:
        t = ct[i]
        if t.kind == "punct" and t.text in ("|", "||"):
            prev = ct[i - 1].text if i > 0 else "("
            if prev in _EXPR_START_PREV:
                if t.text == "||":
                    hl = i
                else:
                    j = i + 1
                    while j < hi and ct[j].text != "|":
                        if ct[j].text in OPEN:
                            j = match_close(ct, j)
                        elif ct[j].text == "<":
                            j = skip_generics(ct, j) - 1
                        j += 1
                    hl = j
                bf = hl + 1
                # optional `-> T` return type: then body must be a block
                if ct[bf].text == "->":
                    k = bf + 1
                    while ct[k].text != "{":
                        k += 1
                    bf = k
                if ct[bf].text == "{":
                    bl = match_close(ct, bf)
                else:
                    k = bf
                    while k < hi:
                        tt = ct[k].text
                        if ct[k].kind == "punct":
                            if tt in OPEN:
                                k = match_close(ct, k) + 1
                                continue
                            if tt in (",", ";") or tt in CLOSE:
                                break
                        k += 1
                    bl = k - 1
                hf = i - 1 if (i > 0 and ct[i - 1].text == "move") else i
                res.append((hf, hl, bf, bl))
                # continue scanning *inside* the body as well (nested closures)
                i = hl + 1
                continue
        i += 1
    return res


LOOP_KW = ("for", "while", "loop")


def loops(ct: List[Tok], lo: int, hi: int) -> List[Tuple[int, int, int]]:
    """(kw_index, body_open, body_close) for each loop in [lo,hi), source order."""
    res = []
    i = lo
    while i < hi:
        t = ct[i]
        if t.kind == "ident" and t.text in LOOP_KW:
            # `for<'a>` in types: skip
            if t.text == "for" and ct[i + 1].text == "<":
                i += 1
                continue
            # impl X for Y : not inside fn bodies
            k = i + 1
            while k < hi and ct[k].text != "{":
                if ct[k].text in OPEN:
                    k = match_close(ct, k) + 1
                    continue
                k += 1
            if k >= hi:
                break
            res.append((i, k, match_close(ct, k)))
        i += 1
    return res
