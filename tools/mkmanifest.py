#!/usr/bin/env python3
"""Regenerates MANIFEST.json from registry.toml (claimed properties) and
not_applicable.toml (unclaimed ones, with reasons)."""
import json, os, tomllib
HERE = os.path.dirname(os.path.dirname(os.path.abspath(__file__)))
reg = tomllib.load(open(os.path.join(HERE, "registry.toml"), "rb"))
na = tomllib.load(open(os.path.join(HERE, "not_applicable.toml"), "rb"))
# properties that have at least one Kani harness (tags `//@ harness .. property=Cxx[,Cyy]` in kani/*.rs)
import glob as _glob, re as _re
kani_props = set()
for _f in _glob.glob(os.path.join(HERE, "kani", "*.rs")):
    for _m in _re.finditer(r"//@ harness[^\n]*property=([A-Z0-9,]+)", open(_f).read()):
        kani_props |= set(_m.group(1).split(","))
ids = [json.loads(l)["id"] for l in open(os.path.join(HERE, "properties.jsonl"))]
checks = []
for pid in ids:
    if pid not in reg["property"]:
        continue
    c = reg["property"][pid]
    checks.append({
        "property_id": pid,
        "quick_cmd": f"./check {pid} --tier quick",
        "thorough_cmd": f"./check {pid} --tier thorough",
        "evidence_file": f"/verif/evidence/{pid}.json",
        "replay_cmd_template": "./check --replay {path}",
        "engine": c.get("engine", "verus+kani" if pid in kani_props else "verus"),
        "level_claimed": {"category": c["level"], "text": c["level_text"], "design_ref": c.get("design_ref", "DESIGN.md section 4")},
        "level_note": c["level_note"],
        "technique": c["technique"],
    })
claimed = {c["property_id"] for c in checks}
nal = [{"property_id": p, "reason": na["reason"][p]} for p in ids if p not in claimed]
missing = [p for p in ids if p not in claimed and p not in na["reason"]]
assert not missing, missing
m = {
    "version": 1,
    "setup_cmd": "./setup.sh",
    "hooks": {
        "guard": "kani",
        "enable": "none needed in /repo: Kani harness modules are appended under #[cfg(kani)] to a scratch copy of /repo's working tree on every run (tools/kx.py); Verus units extract function text from /repo on every run (tools/vx.py)",
        "baseline_off_cmd": "cd /repo && cargo test --workspace --no-fail-fast --offline",
        "source_commits": [],
        "add_only": True,
    },
    "engines": [
        {"name": "verus", "path": "tools/vx.py", "serves_properties": sorted(p for p in claimed if reg["property"][p].get("verus")),
         "kind_free_text": "Verus 0.2026.09.13 on function text extracted mechanically from /repo on every run, contracts spliced from contracts/<unit>/splice"},
        {"name": "kani", "path": "tools/kx.py", "serves_properties": sorted(p for p in claimed if p in kani_props),
         "kind_free_text": "Kani 0.68 / CBMC 6.11 on the real crate (scratch copy with #[cfg(kani)] harness modules appended); counterexamples replayed natively"},
    ],
    "checks": checks,
    "notes": "Contract-based deductive verification of the real code. exit 0 = all obligations discharged; exit 1 + VIOLATION line = a locked obligation failed; exit 2 + UNDECIDED line = could not decide (lost anchor, unsupported construct, rlimit, timeout, vacuity guard) and is never reported as a violation. Genuine defects found and repaired: see known_findings.txt (fixed:) and DESIGN.md section 6.",
    "not_applicable": nal,
}
json.dump(m, open(os.path.join(HERE, "MANIFEST.json"), "w"), indent=1)
print("claimed:", sorted(claimed), "n/a:", [x["property_id"] for x in nal])
