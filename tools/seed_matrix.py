#!/usr/bin/env python3
"""Runs the registered quick checks against every seeded change under seeded/ (apply to /repo, check, undo)
and writes seeded/<id>/meta.json + seeded/MATRIX.md.  Never leaves /repo modified."""
import json, os, re, subprocess, sys, glob
HERE = os.path.dirname(os.path.dirname(os.path.abspath(__file__)))
def sh(cmd, cwd=HERE, timeout=7200):
    p = subprocess.run(cmd, shell=True, cwd=cwd, capture_output=True, text=True, timeout=timeout)
    return p.returncode, p.stdout + p.stderr
rows = []
only = sys.argv[1:]
for d in sorted(glob.glob(os.path.join(HERE, "seeded", "C*-*"))):
    sid = os.path.basename(d)
    if only and sid not in only:
        # keep the row of a seed that is not re-run
        mp = os.path.join(d, "meta.json")
        if os.path.exists(mp):
            rows.append(json.load(open(mp)))
        continue
    prop = re.match(r"C\d+", sid).group(0)
    am = json.load(open(os.path.join(d, "agent_meta.json")))
    cf = {}
    cpath = f"/tmp/confirm/{sid}.json"
    if os.path.exists(cpath):
        cf = json.load(open(cpath))
        json.dump(cf, open(os.path.join(d, "confirmation.json"), "w"), indent=1)
    elif os.path.exists(os.path.join(d, "confirmation.json")):
        cf = json.load(open(os.path.join(d, "confirmation.json")))
    assert sh("git -C /repo status --porcelain")[1].strip() == "", "/repo not clean"
    rc, o = sh(f"git -C /repo apply {d}/patch.diff")
    try:
        # never let a run against a seeded tree overwrite the committed evidence / replays
        rc, out = sh(f"VERIF_EVIDENCE_DIR=/var/tmp/dropshot-verif/matrix-evidence VERIF_REPLAY_DIR=/var/tmp/dropshot-verif/matrix-replays ./check {prop} --tier quick")
    finally:
        sh("git -C /repo checkout -- . && git -C /repo clean -fdq")
    viol = re.findall(r"^VIOLATION property=\S+ replay=\S+ obligation=(\S+)( no-failing-input-found)?", out, re.M)
    und = re.findall(r"^UNDECIDED property=\S+ (.*)$", out, re.M)
    verdict = ("VIOLATION" if viol else "CHECK-ERROR") if rc == 1 else ("UNDECIDED" if rc == 2 else ("not detected" if rc == 0 else "CHECK-ERROR"))
    meta = {
        "id": sid,
        "property": prop,
        "summary": am.get("summary"),
        "needs_to_manifest": am.get("needs_to_manifest"),
        "source": ("independent sub-agent given the property text and a scratch worktree, and pointed at the source files the property's anchors name (round 3)"
                   if re.match(r"C\d+c-|C20-", sid) else
                   "independent sub-agent given only the property text and a scratch worktree, asked for small shape-preserving edits (rounds 5-10)"
                   if re.match(r"C\d+[efghijk]-", sid) else "independent sub-agent given only the property text and a scratch worktree"),
        "confirmed_by_me": cf.get("confirmed"),
        "what_i_ran": {
            "scratch_worktree": "/tmp/wt-confirm (git worktree of /repo HEAD, removed afterwards)",
            "suite_with_change": "cargo test --workspace --no-fail-fast --offline",
            "suite_passes_with_change": cf.get("suite_passes_with_change"),
            "suite_flaky_tests_rerun_alone": cf.get("suite_failed_tests_first_run"),
            "demo_cmds": cf.get("demo_cmds"),
            "demo_fails_with_change": cf.get("demo_fails_with_change"),
            "demo_passes_without_change": cf.get("demo_passes_without_change"),
        },
        "check": {"cmd": f"./check {prop} --tier quick", "exit": rc, "verdict": verdict,
                  "violated_obligations": [v[0] + (" (no-failing-input-found)" if v[1] else " (counterexample replayed)") for v in viol],
                  "undecided": [u[:300] for u in und]},
    }
    json.dump(meta, open(os.path.join(d, "meta.json"), "w"), indent=1)
    rows.append(meta)
    print(sid, verdict, [v[0] for v in viol][:3], flush=True)
with open(os.path.join(HERE, "seeded", "MATRIX.md"), "w") as f:
    f.write("| seed | property | what the change does | check verdict | obligations that failed / why undecided |\n|---|---|---|---|---|\n")
    for m in rows:
        why = "; ".join(m["check"]["violated_obligations"][:4]) or "; ".join(u[:160] for u in m["check"]["undecided"][:2])
        f.write(f"| {m['id']} | {m['property']} | {(m['summary'] or '')[:220].replace('|','/')} | {m['check']['verdict']} | {why.replace('|','/')} |\n")
