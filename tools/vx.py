#!/usr/bin/env python3
"""vx.py -- Verus units: mechanical extraction of real function text from
/repo, contract splicing, verification, classification.

A unit lives in contracts/<unit>/ :
    unit.toml        which items of /repo, which rewrites (rules W0..W9)
    prelude.rs       TRUSTED stand-ins (external_body / uninterp / axioms)
    spec.rs          CHECKED spec functions, lemmas, hand-written sentinels
    splice/<fn>.rs   contract / closure-header / loop-invariant / proof text
    obligations.lock names of obligations that must be generated and discharged

Nothing here edits /repo.  The assembled file is written under the work dir
(/var/tmp/dropshot-verif/vx/<unit>/) and its sha256-per-span is reported so the
"verified text == text in /repo" claim can be re-checked by diffing.
"""
from __future__ import annotations

import hashlib
import json
import os
import re
import subprocess
import sys
import time
import tomllib
import dataclasses
from dataclasses import dataclass, field
from typing import Dict, List, Optional, Tuple

sys.path.insert(0, os.path.dirname(os.path.abspath(__file__)))
import rustlex as R  # noqa: E402
from rustlex import ExtractError  # noqa: E402

VERIF = os.path.dirname(os.path.dirname(os.path.abspath(__file__)))
REPO = os.environ.get("VERIF_REPO", "/repo")
WORK = os.environ.get("VERIF_WORK", "/var/tmp/dropshot-verif")

VERIFICATION_FAILURES = (
    "unable to prove post-condition of closure",
    "postcondition not satisfied",
    "precondition not satisfied",
    "assertion failed",
    "invariant not satisfied at end of loop body",
    "invariant not satisfied before loop",
    "possible arithmetic underflow/overflow",
    "possible division by zero",
    "decreases not satisfied",
    "unreachable_unchecked",
    "loop invariant not satisfied",
    "failed precondition",
    "possible bit shift underflow/overflow",
    "index out of bounds",
    "could not show termination",
    "recursive call",
)
RESOURCE_FAILURES = ("rlimit", "Resource limit", "resource limit")


# ---------------------------------------------------------------------------
# splice files


@dataclass
class Splice:
    ret: Optional[str] = None
    contract: str = ""
    body_start: str = ""
    body_end: str = ""
    attrs: str = ""
    closures: Dict[int, str] = field(default_factory=dict)
    loop_inv: Dict[int, str] = field(default_factory=dict)
    loop_body_start: Dict[int, str] = field(default_factory=dict)
    loop_body_end: Dict[int, str] = field(default_factory=dict)
    loop_iter: Dict[int, str] = field(default_factory=dict)
    loop_header: Dict[int, str] = field(default_factory=dict)
    before: List[Tuple[str, int, str]] = field(default_factory=list)
    after: List[Tuple[str, int, str]] = field(default_factory=list)
    replace_sig: Optional[str] = None
    wrap: Optional[Tuple[str, str]] = None


def parse_splice(path: str) -> Splice:
    sp = Splice()
    if not os.path.exists(path):
        return sp
    cur = None
    buf: List[str] = []

    def flush():
        nonlocal cur, buf
        if cur is None:
            return
        text = "".join(buf)
        k = cur[0]
        if k == "contract":
            sp.contract += text
        elif k == "body_start":
            sp.body_start += text
        elif k == "body_end":
            sp.body_end += text
        elif k == "attrs":
            sp.attrs += text
        elif k == "closure":
            sp.closures[int(cur[1])] = text.strip()
        elif k == "loop":
            n = int(cur[1])
            what = cur[2]
            if what == "invariant":
                sp.loop_inv[n] = text
            elif what == "body_start":
                sp.loop_body_start[n] = text
            elif what == "body_end":
                sp.loop_body_end[n] = text
            elif what == "header":
                sp.loop_header[n] = text.strip()
            else:
                raise ValueError(f"{path}: unknown loop splice {what}")
        elif k in ("before", "after"):
            m = re.match(r'\s*"((?:[^"\\]|\\.)*)"\s*(\d+)?', cur[3])
            if not m:
                raise ValueError(f"{path}: bad {k} anchor: {cur[3]}")
            pat = m.group(1).replace('\\"', '"')
            n = int(m.group(2) or 0)
            (sp.before if k == "before" else sp.after).append((pat, n, text))
        buf = []
        cur = None

    for line in open(path, encoding="utf-8"):
        m = re.match(r"\s*//@\s*(\w+)\s*(.*)$", line)
        if m:
            flush()
            key, rest = m.group(1), m.group(2).strip()
            if key == "base":
                # a variant splice: start from another splice file of the same directory, then add to it
                sp = parse_splice(os.path.join(os.path.dirname(path), rest))
                continue
            if key == "contract_extra":
                cur = ("contract",)
                continue
            if key == "ret":
                sp.ret = rest
            elif key == "loop_iter":
                n, name = rest.split()
                sp.loop_iter[int(n)] = name
            elif key in ("contract", "body_start", "body_end", "attrs"):
                cur = (key,)
            elif key == "closure":
                cur = ("closure", rest)
            elif key == "loop":
                n, what = rest.split()
                cur = ("loop", n, what)
            elif key in ("before", "after"):
                cur = (key, None, None, rest)
            else:
                raise ValueError(f"{path}: unknown splice directive {key}")
            continue
        if cur is not None:
            buf.append(line)
    flush()
    return sp


# ---------------------------------------------------------------------------
# rewriting one extracted item


@dataclass
class DropReport:
    entries: List[dict] = field(default_factory=list)

    def add(self, rule: str, item: str, what: str, count: int = 1):
        self.entries.append({"rule": rule, "item": item, "what": what, "count": count})


def apply_token_substs(text: str, substs: List[dict], report: DropReport, item: str, rule="W1") -> str:
    """Token-sequence substitution (insensitive to whitespace/comments)."""
    for s in substs:
        pat = R.tokenize_pattern(s["from"])
        fr = R.Frag(text)
        idxs = R.find_seq(fr.ct, pat)
        # leftmost, non-overlapping
        used = -1
        cnt = 0
        for i in idxs:
            if i <= used:
                continue
            # do not match in the middle of a longer path when the pattern starts with an identifier
            if s.get("whole_path", True):
                if i > 0 and fr.ct[i - 1].text == "::" and not s["from"].startswith("::"):
                    continue
            fr.replace(fr.ct[i].start, fr.ct[i + len(pat) - 1].end, s["to"])
            used = i + len(pat) - 1
            cnt += 1
        if cnt:
            text = fr.apply()
            report.add(s.get("rule", rule), item, f"`{s['from']}` -> `{s['to']}`", cnt)
        elif s.get("required"):
            raise ExtractError(f"{item}: required substitution `{s['from']}` matched nothing")
    return text


def strip_macro_calls(text: str, names: List[str], repl: str, report: DropReport, item: str, rule: str) -> str:
    fr = R.Frag(text)
    ct = fr.ct
    cnt = 0
    i = 0
    while i < len(ct) - 2:
        if ct[i].kind == "ident" and ct[i].text in names and ct[i + 1].text == "!" and ct[i + 2].text in R.OPEN:
            e = R.match_close(ct, i + 2)
            fr.replace(ct[i].start, ct[e].end, repl)
            cnt += 1
            i = e + 1
            continue
        i += 1
    if cnt:
        report.add(rule, item, f"`{'!/'.join(names)}!(..)` -> `{repl}`", cnt)
        return fr.apply()
    return text


def excise_match(text: str, scrutinee: str, replacement: str, report: DropReport, item: str) -> str:
    """W10: the expression `match <scrutinee> { .. }` is replaced as a whole by `replacement` (a call to a
    stand-in declared in the prelude whose contract states what the excised expression is assumed to do).
    Used where an arm needs a runtime (tokio::spawn, channels) that is out of the verifier's reach."""
    fr = R.Frag(text)
    ct = fr.ct
    seq = ["match"] + R.tokenize_pattern(scrutinee) + ["{"]
    idx = R.find_seq(ct, seq)
    if len(idx) != 1:
        raise ExtractError(f"{item}: excision anchor `match {scrutinee} {{` matched {len(idx)} times")
    i = idx[0]
    bo = i + len(seq) - 1
    bc = R.match_close(ct, bo)
    n_lines = text[ct[i].start:ct[bc].end].count("\n") + 1
    fr.replace(ct[i].start, ct[bc].end, replacement)
    report.add("W10", item, f"`match {scrutinee} {{..}}` ({n_lines} lines) excised -> `{replacement}`")
    return fr.apply()


def desugar_try(text: str, report: DropReport, item: str, keep: Optional[List[int]] = None) -> str:
    """W11: `e?` -> `match e { Ok(v) => v, Err(e) => return Err(From::from(e)) }`, the language-defined
    meaning of `?` on a Result.  Needed only where `?` converts the error type: Verus keeps the converted
    value opaque for `?` but not for the explicit `From::from` call.  `keep`: occurrences (source order, from 0)
    that do NOT convert the error type and stay `?` (Verus handles those natively, and has no contract for the
    reflexive `From<T> for T`)."""
    n = 0
    occ = 0
    keep = set(keep or [])
    KEEP = ".keep_try__()"
    while True:
        fr = R.Frag(text)
        ct = fr.ct
        q = None
        for i, t in enumerate(ct):
            if t.kind == "punct" and t.text == "?" and i > 0:
                q = i
                break
        if q is None:
            break
        if occ in keep:
            fr.replace(ct[q].start, ct[q].end, KEEP)
            text = fr.apply()
            occ += 1
            continue
        occ += 1
        # walk back over the postfix chain
        j = q - 1
        while True:
            tt = ct[j]
            if tt.text in (")", "]"):
                # matching open
                depth = 0
                k = j
                while True:
                    if ct[k].text in R.CLOSE:
                        depth += 1
                    elif ct[k].text in R.OPEN:
                        depth -= 1
                        if depth == 0:
                            break
                    k -= 1
                j = k
                # a call/index: the callee precedes
                if j > 0 and (ct[j - 1].kind == "ident" or ct[j - 1].text in (")", "]", ">")):
                    j -= 1
                    continue
                break
            if tt.kind in ("ident", "num", "str"):
                if j > 0 and ct[j - 1].text in (".", "::"):
                    j -= 2
                    continue
                break
            break
        start = ct[j].start
        expr = text[start:ct[q - 1].end]
        fr.replace(start, ct[q].end, f"(match {expr} {{ Ok(try_v{n}) => try_v{n}, Err(try_e{n}) => return Err(From::from(try_e{n})) }})")
        text = fr.apply()
        n += 1
        if n > 50:
            raise ExtractError(f"{item}: runaway `?` desugaring")
    text = text.replace(KEEP, "?")
    if n:
        report.add("W11", item, "`e?` desugared to `match e { Ok(v) => v, Err(e) => return Err(From::from(e)) }`", n)
    return text


def drop_cfg_gated(text: str, features: List[str], report: DropReport, item: str) -> str:
    """W0: a statement/expression-statement carrying `#[cfg(feature = "F")]` for a feature that is OFF in the
    verified configuration (default features) is removed together with the attribute, exactly as the compiler does."""
    n = 0
    while True:
        fr = R.Frag(text)
        ct = fr.ct
        hit = None
        for i in range(len(ct) - 1):
            if ct[i].text == "#" and ct[i + 1].text == "[":
                e = R.match_close(ct, i + 1)
                inner = [t.text for t in ct[i + 2:e]]
                if inner[:2] == ["cfg", "("] and "feature" in inner and any(('"' + f + '"') in inner for f in features) and "not" not in inner:
                    hit = (i, e)
                    break
        if hit is None:
            break
        i, e = hit
        k = e + 1
        while k < len(ct):
            tt = ct[k].text
            if tt in R.OPEN:
                k = R.match_close(ct, k) + 1
                continue
            if tt == ";":
                break
            k += 1
        fr.replace(ct[i].start, ct[k].end, "")
        text = fr.apply()
        n += 1
    if n:
        report.add("W0", item, f"statement(s) gated by a disabled cargo feature {features} removed (as the compiler does)", n)
    return text


def excise_stmt(text: str, anchor: str, replacement: str, report: DropReport, item: str) -> str:
    """W10: the block statement that starts with the token sequence `anchor` (e.g. a `for` loop that only
    builds a logger) is removed / replaced as a whole."""
    fr = R.Frag(text)
    ct = fr.ct
    seq = R.tokenize_pattern(anchor)
    idx = R.find_seq(ct, seq)
    if len(idx) != 1:
        raise ExtractError(f"{item}: excision anchor `{anchor}` matched {len(idx)} times")
    i = idx[0]
    k = i + len(seq)
    while ct[k].text != "{":
        if ct[k].text in R.OPEN:
            k = R.match_close(ct, k)
        k += 1
    bc = R.match_close(ct, k)
    n_lines = text[ct[i].start:ct[bc].end].count("\n") + 1
    fr.replace(ct[i].start, ct[bc].end, replacement)
    report.add("W10", item, f"statement `{anchor} {{..}}` ({n_lines} lines) excised" + (f" -> `{replacement}`" if replacement else ""))
    return fr.apply()


def name_wildcard_params(text: str, report: DropReport, item: str) -> str:
    """W3: Verus wants every function parameter to be a plain identifier: `_: T` in the signature becomes `_argN: T`
    (an unused parameter stays unused)."""
    fr = R.Frag(text)
    ct = fr.ct
    # the signature: from `fn` to the body's `{` (or `;`)
    try:
        i = next(k for k, t in enumerate(ct) if t.text == "fn")
    except StopIteration:
        return text
    k = i
    while k < len(ct) and ct[k].text != "(":
        k += 1
    if k >= len(ct):
        return text
    e = R.match_close(ct, k)
    n = 0
    depth = 0
    for j in range(k, e):
        tt = ct[j].text
        if tt in R.OPEN:
            depth += 1
        elif tt in (")", "]", "}"):
            depth -= 1
        elif tt == "_" and depth == 1 and ct[j + 1].text == ":" and ct[j - 1].text in ("(", ","):
            fr.replace(ct[j].start, ct[j].end, f"_arg{n}")
            n += 1
    if n:
        report.add("W3", item, "wildcard parameter(s) `_: T` named `_argN: T`", n)
        return fr.apply()
    return text


def excise_range(text: str, start: str, last: str, replacement: str, report: DropReport, item: str) -> str:
    """W10: the run of statements from the one that starts with the token sequence `start` through the one that
    starts with `last` (each ends at its `;` at nesting depth 0) is replaced by `replacement` (calls of stand-ins whose
    contracts state what the excised statements are assumed to compute)."""
    fr = R.Frag(text)
    ct = fr.ct
    i0 = R.find_seq(ct, R.tokenize_pattern(start))
    i1 = R.find_seq(ct, R.tokenize_pattern(last))
    if len(i0) != 1 or len(i1) != 1 or i1[0] < i0[0]:
        raise ExtractError(f"{item}: excision anchors `{start}` .. `{last}` matched {len(i0)} / {len(i1)} times")
    k = i1[0]
    depth = 0
    while k < len(ct):
        tt = ct[k].text
        if tt in R.OPEN:
            depth += 1
        elif tt in R.CLOSE:
            depth -= 1
        elif tt == ";" and depth == 0:
            break
        k += 1
    n_lines = text[ct[i0[0]].start:ct[k].end].count("\n") + 1
    fr.replace(ct[i0[0]].start, ct[k].end, replacement)
    report.add("W10", item, f"statements `{start} ..` through `{last} ..;` ({n_lines} lines) excised -> `{replacement}`")
    return fr.apply()


def split_or_guard_arm(text: str, anchor: str, report: DropReport, item: str) -> str:
    """W17: Verus refuses a match arm that has both an or-pattern and a guard.  `P1 | P2 if G => B,` is rewritten into the two
    arms `P1 if G => B, P2 if G => B,` (same meaning: each alternative is tried in order and the guard decides for it)."""
    fr = R.Frag(text)
    ct = fr.ct
    idx = R.find_seq(ct, R.tokenize_pattern(anchor))
    if len(idx) != 1:
        raise ExtractError(f"{item}: `{anchor}` matched {len(idx)} times")
    a = idx[0]
    k = a
    bars = []
    kif = None
    while True:
        tt = ct[k].text
        if tt in R.OPEN:
            k = R.match_close(ct, k) + 1
            continue
        if tt == "|":
            bars.append(k)
        elif tt == "if" and kif is None:
            kif = k
        elif tt == "=>":
            break
        k += 1
    karrow = k
    if not bars or kif is None or any(b > kif for b in bars):
        raise ExtractError(f"{item}: `{anchor}` does not start an arm with an or-pattern and a guard")
    # body: a block, or an expression up to the `,` at depth 0
    b0 = karrow + 1
    if ct[b0].text == "{":
        b1 = R.match_close(ct, b0)
    else:
        e = b0
        while True:
            tt = ct[e].text
            if tt in R.OPEN:
                e = R.match_close(ct, e) + 1
                continue
            if tt == "," or tt in R.CLOSE:
                break
            e += 1
        b1 = e - 1
    guard = text[ct[kif].start:ct[karrow - 1].end]
    body = text[ct[b0].start:ct[b1].end]
    cuts = [a] + [b + 1 for b in bars]
    ends = [b - 1 for b in bars] + [kif - 1]
    pats = [text[ct[c].start:ct[e].end] for c, e in zip(cuts, ends)]
    arms = ",\n".join(f"{p} {guard} => {body}" for p in pats)
    fr.replace(ct[a].start, ct[b1].end, arms)
    report.add("W17", item, f"arm `{anchor} ..` with an or-pattern of {len(pats)} alternatives and a guard split into {len(pats)} arms with the same guard and body")
    return fr.apply()


def tail_loop_break_to_return(text: str, report: DropReport, item: str) -> str:
    """W16: Verus has no `break VALUE`.  When a `loop { .. }` is the TAIL expression of the function body, leaving it with
    `break E` is returning E from the function: each `break E` of that loop becomes `return E`.  Breaks of nested loops and of
    closures are left alone; a labelled break is refused."""
    fr = R.Frag(text)
    ct = fr.ct
    i = next((k for k, t in enumerate(ct) if t.text == "fn"), None)
    if i is None:
        return text
    b = i
    while ct[b].text != "{":
        if ct[b].text in R.OPEN:
            b = R.match_close(ct, b)
        b += 1
    bc = R.match_close(ct, b)
    # the tail expression: a `loop` at depth 1 whose block closes right before the body does
    lp = None
    k = b + 1
    while k < bc:
        if ct[k].text in R.OPEN:
            k = R.match_close(ct, k) + 1
            continue
        if ct[k].text == "loop" and ct[k + 1].text == "{" and R.match_close(ct, k + 1) == bc - 1:
            lp = k
            break
        k += 1
    if lp is None:
        raise ExtractError(f"{item}: no `loop` in tail position (W16 does not apply)")
    lo, lc = lp + 1, R.match_close(ct, lp + 1)
    if R.closures(ct, lo + 1, lc):
        raise ExtractError(f"{item}: closure inside the tail loop (W16 does not look into closures)")
    cnt = 0
    k = lo + 1
    while k < lc:
        t = ct[k]
        if t.text in ("loop", "while", "for") and t.kind == "ident":
            # skip the nested loop (its breaks are its own)
            j = k + 1
            while ct[j].text != "{":
                if ct[j].text in R.OPEN:
                    j = R.match_close(ct, j)
                j += 1
            k = R.match_close(ct, j) + 1
            continue
        if t.text == "break" and t.kind == "ident":
            nxt = ct[k + 1]
            if nxt.kind == "lifetime" or nxt.text.startswith("'"):
                raise ExtractError(f"{item}: labelled break in the tail loop")
            if nxt.text not in (";", "}", ","):
                fr.replace(t.start, t.end, "return")
                cnt += 1
        k += 1
    if cnt:
        report.add("W16", item, "`break VALUE` of the function's tail `loop` -> `return VALUE`", cnt)
        return fr.apply()
    return text


def mut_self_to_local(text: str, name: str, report: DropReport, item: str) -> str:
    """W8b: Verus has no `mut self` parameter: `fn f(mut self, ..) { B }` -> `fn f(self, ..) { let mut NAME = self; B[self := NAME] }`
    (binding a by-value parameter mutably is a local rebinding)."""
    fr = R.Frag(text)
    ct = fr.ct
    i = next((k for k, t in enumerate(ct) if t.text == "fn"), None)
    if i is None:
        return text
    k = i
    while ct[k].text != "(":
        k += 1
    e = R.match_close(ct, k)
    hit = None
    for j in range(k, e):
        if ct[j].text == "mut" and ct[j + 1].text == "self" and ct[j - 1].text != "&":
            hit = j
            break
    if hit is None:
        return text     # `&mut self` / `self`: nothing to rewrite
    fr.replace(ct[hit].start, ct[hit + 1].start, "")
    b = e
    while ct[b].text != "{":
        if ct[b].text in R.OPEN:
            b = R.match_close(ct, b)
        b += 1
    bc = R.match_close(ct, b)
    for j in range(b + 1, bc):
        if ct[j].kind == "ident" and ct[j].text == "self":
            fr.replace(ct[j].start, ct[j].end, name)
    fr.insert(ct[b].end, f" let mut {name} = self;")
    report.add("W8b", item, f"`mut self` -> `self` + `let mut {name} = self;`, `self` renamed `{name}` in the body")
    return fr.apply()


def expand_macro_rules(src, name: str, invocation: int, report: DropReport, item: str) -> str:
    """W15: textual expansion of ONE invocation of `macro_rules! NAME { ($(( $a:tt, $b:tt, .. )),*) => { BODY } }`.
    Supported: a single rule whose matcher is a comma-separated repetition of parenthesised tuples of `tt`
    metavariables, and a transcriber using single-level `$( .. ) SEP? *` repetitions and those metavariables."""
    text = src.text
    m = re.search(r"macro_rules!\s*" + re.escape(name) + r"\s*\{", text)
    if not m:
        raise ExtractError(f"{item}: macro_rules! {name} not found")
    ct = src.ct
    k = next(i for i, t in enumerate(ct) if t.start >= m.end() - 1 and t.text == "{")
    kend = R.match_close(ct, k)
    # matcher: ( $( ( $x:tt, $y:tt ) ),* )
    j = k + 1
    if ct[j].text != "(":
        raise ExtractError(f"{item}: unsupported macro matcher")
    jm = R.match_close(ct, j)
    metas = [ct[i + 1].text for i in range(j, jm) if ct[i].text == "$" and ct[i + 1].kind == "ident" and ct[i + 2].text == ":"]
    # transcriber
    a = jm + 1
    while ct[a].text != "{":
        a += 1
    b = R.match_close(ct, a)
    if any(ct[i].text == "=" and ct[i + 1].text == ">" for i in range(b + 1, kend)):
        raise ExtractError(f"{item}: macro {name} has several rules (unsupported)")
    body_toks = ct[a + 1:b]
    # the invocation's arguments
    invs = [it for it in src.top_items() if it.kind == "macro" and it.name == name]
    if invocation >= len(invs):
        raise ExtractError(f"{item}: invocation #{invocation} of {name}! not found ({len(invs)} invocations)")
    inv = invs[invocation]
    itoks = [t for t in ct if inv.start <= t.start < inv.end]
    o = next(i for i, t in enumerate(itoks) if t.text in R.OPEN)
    # the matching close of the invocation's delimiter
    dep = 0
    oc = None
    for i in range(o, len(itoks)):
        if itoks[i].text in R.OPEN:
            dep += 1
        elif itoks[i].text in R.CLOSE:
            dep -= 1
            if dep == 0:
                oc = i
                break
    itoks = itoks[:oc + 1]
    args = []
    depth = 0
    cur = None
    for t in itoks[o + 1:-1]:
        if t.text == "(":
            depth += 1
            if depth == 1:
                cur = []
                continue
        if t.text == ")":
            depth -= 1
            if depth == 0 and cur is not None:
                parts = [[]]
                for x in cur:
                    if x.text == "," and True:
                        parts.append([])
                    else:
                        parts[-1].append(x.text)
                args.append([" ".join(p) for p in parts])
                cur = None
                continue
        if depth >= 1 and cur is not None:
            cur.append(t)
    if not args and len(metas) == 1:
        # matcher `$( $S:ident ),+`: a flat comma-separated list, one metavariable
        flat = [[]]
        for t in itoks[o + 1:-1]:
            if t.text == ";":
                continue
            if t.text == ",":
                flat.append([])
            else:
                flat[-1].append(t.text)
        args = [[" ".join(x)] for x in flat if x]
    for tup in args:
        if len(tup) != len(metas):
            raise ExtractError(f"{item}: invocation tuple {tup} does not match metavariables {metas}")

    def subst(tokens, env):
        out = []
        i = 0
        while i < len(tokens):
            t = tokens[i]
            if t.text == "$" and i + 1 < len(tokens) and tokens[i + 1].text == "(":
                # repetition group
                depth = 0
                e = i + 1
                while True:
                    if tokens[e].text in R.OPEN:
                        depth += 1
                    elif tokens[e].text in R.CLOSE:
                        depth -= 1
                        if depth == 0:
                            break
                    e += 1
                inner = tokens[i + 2:e]
                nxt = e + 1
                sep = None
                if tokens[nxt].text not in ("*", "+"):
                    sep = tokens[nxt].text
                    nxt += 1
                if tokens[nxt].text not in ("*", "+"):
                    raise ExtractError(f"{item}: only `*` / `+` repetitions are supported")
                pieces = [subst(inner, dict(zip(metas, tup))) for tup in args]
                out.append((" " + sep + " ").join(pieces) if sep else " ".join(pieces))
                i = nxt + 1
                continue
            if t.text == "$" and i + 1 < len(tokens) and tokens[i + 1].kind == "ident" and tokens[i + 1].text in env:
                out.append(env[tokens[i + 1].text])
                i += 2
                continue
            out.append(t.text)
            i += 1
        # re-join tokens; keep `::`, `.`, paths readable -- a token stream, spacing is irrelevant to the lexer
        return " ".join(out)

    expanded = subst(body_toks, {})
    expanded = re.sub(r" ([;{}]) ", lambda mm: " " + mm.group(1) + "\n", expanded)
    # tuple field access `x . 0` and paths were split by spaces: harmless; but `# [ attr ]` must stay an attribute
    report.add("W15", item, f"invocation #{invocation} `{name}!({', '.join('(' + ', '.join(t) + ')' for t in args)})` expanded from its macro_rules! definition (comments dropped)")
    return expanded + "\n"


def seq_toks(toks, n):
    return toks[:n]


def for_to_while(text: str, anchor: str, itname: str, report: DropReport, item: str, by_value: bool = False) -> str:
    """W14: `for PAT in &EXPR {` -> `let mut IT = EXPR.iter(); while let Some(PAT) = IT.next() {` -- the language's own
    desugaring of a `for` over `&Vec<T>` / `&[T]` (IntoIterator for &Vec<T> is `.iter()`).  Needed where the body uses
    `continue`, which Verus supports in `while`/`loop` but not yet in `for`."""
    fr = R.Frag(text)
    ct = fr.ct
    seq = R.tokenize_pattern(anchor)
    idx = R.find_seq(ct, seq)
    if len(idx) != 1:
        raise ExtractError(f"{item}: `{anchor}` matched {len(idx)} times")
    i = idx[0]
    # the anchor may stop after `in`: the header then runs up to the `{` that opens the body
    e = i + len(seq)
    while ct[e].text != "{":
        if ct[e].text in R.OPEN:
            e = R.match_close(ct, e)
        e += 1
    toks = ct[i:e]
    if toks[0].text != "for" or not any(t.text == "in" for t in seq_toks(toks, len(seq))):
        raise ExtractError(f"{item}: `{anchor}` is not the header of a `for` loop (up to and including `in`)")
    k_in = next(k for k, t in enumerate(toks) if t.text == "in")
    if by_value:
        # `for PAT in ITER {` where ITER is itself an iterator (IntoIterator for an Iterator is the identity):
        # the language's own desugaring `let mut IT = ITER; while let Some(PAT) = IT.next() {`
        pat = text[toks[1].start:toks[k_in - 1].end]
        expr = text[toks[k_in + 1].start:toks[-1].end]
        fr.replace(toks[0].start, toks[-1].end, f"let mut {itname} = {expr}; while let Some({pat}) = {itname}.next()")
        report.add("W14", item, f"`{anchor}` -> `let mut {itname} = {expr}; while let Some({pat}) = {itname}.next()` (the iterated expression is an Iterator; the body uses `continue`)")
        return fr.apply()
    if toks[k_in + 1].text != "&":
        raise ExtractError(f"{item}: W14 applies to `for PAT in &EXPR` only")
    pat = text[toks[1].start:toks[k_in - 1].end]
    expr = text[toks[k_in + 2].start:toks[-1].end]
    fr.replace(toks[0].start, toks[-1].end, f"let mut {itname} = {expr}.iter(); while let Some({pat}) = {itname}.next()")
    report.add("W14", item, f"`{anchor}` -> `let mut {itname} = {expr}.iter(); while let Some({pat}) = {itname}.next()` (the body uses `continue`)")
    return fr.apply()


def assert_to_reject(text: str, repl: str, report: DropReport, item: str) -> str:
    """W9c: in a function that REJECTS by panicking, `assert!(COND, message..)` is `if !(COND) { panic!(message..) }`:
    it becomes `if !(COND) { REPL; }` with REPL the diverging stand-in of W9b (the rejection must be justified)."""
    fr = R.Frag(text)
    ct = fr.ct
    cnt = 0
    i = 0
    while i < len(ct) - 2:
        if ct[i].kind == "ident" and ct[i].text == "assert" and ct[i + 1].text == "!" and ct[i + 2].text in R.OPEN:
            e = R.match_close(ct, i + 2)
            k = i + 3
            end_cond = e - 1
            while k < e:
                if ct[k].text in R.OPEN:
                    k = R.match_close(ct, k) + 1
                    continue
                if ct[k].text == ",":
                    end_cond = k - 1
                    break
                k += 1
            cond = text[ct[i + 3].start:ct[end_cond].end]
            # swallow the `;` that follows the macro call
            stop = ct[e + 1].end if e + 1 < len(ct) and ct[e + 1].text == ";" else ct[e].end
            fr.replace(ct[i].start, stop, f"if !({cond}) {{ {repl}; }}")
            cnt += 1
            i = e + 1
            continue
        i += 1
    if cnt:
        report.add("W9c", item, f"`assert!(COND, ..)` -> `if !(COND) {{ {repl}; }}`", cnt)
        return fr.apply()
    return text


def w9_panic_args(text: str, report: DropReport, item: str) -> str:
    """W9: `panic!(..)`/`unreachable!(..)` are KEPT (vstd gives them `requires false`, so each must be
    proved unreachable); only their message arguments are dropped."""
    for nm in ("unreachable", "panic"):
        text = strip_macro_calls(text, [nm], nm + "!()", report, item, "W9")
    return text


def format_one_arg(text: str, fname: str, report: DropReport, item: str) -> str:
    """W6b: `format!(TEMPLATE, ARG)` with a literal template and exactly one argument -> `FNAME(TEMPLATE, &(ARG))`, a stand-in
    whose result is an uninterpreted function of the template text and the argument's text (what `format!` computes from
    them is not modelled; that nothing else enters is)."""
    fr = R.Frag(text)
    ct = fr.ct
    cnt = 0
    i = 0
    while i < len(ct) - 2:
        if ct[i].kind == "ident" and ct[i].text == "format" and ct[i + 1].text == "!" and ct[i + 2].text in R.OPEN:
            e = R.match_close(ct, i + 2)
            if ct[i + 3].kind != "str" or ct[i + 4].text != ",":
                raise ExtractError(f"{item}: W6b needs `format!(\"literal\", arg)`")
            # exactly one argument: no further comma at depth 0
            k = i + 5
            while k < e:
                if ct[k].text in R.OPEN:
                    k = R.match_close(ct, k) + 1
                    continue
                if ct[k].text == "," and k != e - 1:
                    raise ExtractError(f"{item}: W6b handles one argument only")
                k += 1
            last = e - 1 if ct[e - 1].text != "," else e - 2
            arg = text[ct[i + 5].start:ct[last].end]
            fr.replace(ct[i].start, ct[e].end, f"{fname}({ct[i + 3].text}, &({arg}))")
            cnt += 1
            i = e + 1
            continue
        i += 1
    if cnt:
        report.add("W6b", item, f"`format!(\"..\", arg)` -> `{fname}(\"..\", &(arg))`", cnt)
        return fr.apply()
    return text


def w6_message_text(text: str, report: DropReport, item: str) -> str:
    text = strip_macro_calls(text, ["format"], "fmt_opaque()", report, item, "W6")
    # "lit".to_string()  /  String::from("lit")  /  "lit".to_owned()  / "lit".into()
    fr = R.Frag(text)
    ct = fr.ct
    cnt = 0
    i = 0
    while i < len(ct):
        if ct[i].kind == "str" and i + 4 < len(ct) and ct[i + 1].text == "." and ct[i + 2].text in ("to_string", "to_owned") and ct[i + 3].text == "(" and ct[i + 4].text == ")":
            fr.replace(ct[i].start, ct[i + 4].end, "fmt_opaque()")
            cnt += 1
            i += 5
            continue
        if ct[i].text == "String" and i + 5 < len(ct) and ct[i + 1].text == "::" and ct[i + 2].text == "from" and ct[i + 3].text == "(" and ct[i + 4].kind == "str" and ct[i + 5].text == ")":
            fr.replace(ct[i].start, ct[i + 5].end, "fmt_opaque()")
            cnt += 1
            i += 6
            continue
        i += 1
    if cnt:
        report.add("W6", item, "string-literal message -> `fmt_opaque()`", cnt)
        text = fr.apply()
    return text


KEEP_DERIVES = ("PartialEq", "Eq", "Clone", "Copy")


def strip_attributes(text: str, report: DropReport, item: str, drop_derives: Optional[List[str]] = None) -> str:
    fr = R.Frag(text)
    ct = fr.ct
    cnt = 0
    i = 0
    while i < len(ct) - 1:
        if ct[i].text == "#" and ct[i + 1].text == "[":
            e = R.match_close(ct, i + 1)
            keep = ""
            if ct[i + 2].text == "derive":
                ds = [t.text for t in ct[i + 3:e] if t.kind == "ident" and t.text in KEEP_DERIVES and t.text not in (drop_derives or [])]
                if drop_derives and any(t.text in drop_derives for t in ct[i + 3:e]):
                    report.add("W0", item, f"derive({', '.join(drop_derives)}) replaced by a trusted impl in prelude.rs (Verus gives an auto-derived impl no contract)")
                if ds:
                    keep = "#[derive(" + ", ".join(ds) + ")]"
            fr.replace(ct[i].start, ct[e].end, keep)
            cnt += 1
            i = e + 1
            continue
        i += 1
    if cnt:
        report.add("W0", item, "attribute stripped", cnt)
        return fr.apply()
    return text


def erase_await(text: str, report: DropReport, item: str) -> str:
    fr = R.Frag(text)
    ct = fr.ct
    cnt = 0
    for i in range(len(ct) - 1):
        if ct[i].text == "." and ct[i + 1].text == "await":
            fr.replace(ct[i].start, ct[i + 1].end, "")
            cnt += 1
    for i in range(len(ct) - 1):
        if ct[i].text == "async" and ct[i + 1].text == "fn":
            fr.replace(ct[i].start, ct[i + 1].start, "")
            report.add("W7", item, "`async fn` -> `fn`")
    if cnt:
        report.add("W7", item, "`.await` erased", cnt)
    return fr.apply()


def rewrite_yield(text: str, sink: str, report: DropReport, item: str) -> str:
    fr = R.Frag(text)
    ct = fr.ct
    cnt = 0
    for i in range(len(ct)):
        if ct[i].kind == "ident" and ct[i].text == "yield":
            k = i + 1
            while ct[k].text != ";":
                if ct[k].text in R.OPEN:
                    k = R.match_close(ct, k)
                k += 1
            expr = text[ct[i + 1].start:ct[k - 1].end]
            fr.replace(ct[i].start, ct[k].end, f"{sink}.push({expr});")
            cnt += 1
    if cnt:
        report.add("W8", item, f"`yield e;` -> `{sink}.push(e);`", cnt)
    return fr.apply()


def retype_fields(text: str, keep: List[str], report: DropReport, item: str) -> str:
    """W2 for a struct: fields not in `keep` are retyped to Opaque<(generics)>."""
    fr = R.Frag(text)
    ct = fr.ct
    # locate generics and body
    i = 0
    while ct[i].text != "struct":
        i += 1
    name = ct[i + 1].text
    k = i + 2
    gens: List[str] = []
    if ct[k].text == "<":
        ge = R.skip_generics(ct, k)
        depth = 0
        expect = True
        for t in ct[k + 1:ge - 1]:
            if t.text in ("<", "(", "["):
                depth += 1
            elif t.text in (">", ")", "]"):
                depth -= 1
            elif depth == 0 and t.text == ",":
                expect = True
            elif depth == 0 and expect and t.kind == "ident":
                if t.text != "const":
                    gens.append(t.text)
                    expect = False
            elif depth == 0 and expect and t.kind == "lifetime":
                expect = False
        k = ge
    while ct[k].text != "{":
        if ct[k].text in ("(", ";"):
            return text  # tuple/unit struct: leave alone
        k += 1
    bo, bc = k, R.match_close(ct, k)
    # fields
    j = bo + 1
    opaque = "Opaque<(" + "".join(g + ", " for g in gens) + ")>"
    cnt = 0
    while j < bc:
        # skip attributes
        while ct[j].text == "#":
            j = R.match_close(ct, j + 1) + 1
        if j >= bc:
            break
        if ct[j].text == "pub":
            j += 1
            if ct[j].text == "(":
                j = R.match_close(ct, j) + 1
        fname = ct[j].text
        assert ct[j + 1].text == ":", (item, fname, ct[j + 1])
        ts = j + 2
        e = ts
        while e < bc:
            if ct[e].text == ",":
                break
            if ct[e].text in R.OPEN:
                e = R.match_close(ct, e) + 1
                continue
            if ct[e].text == "<":
                e = R.skip_generics(ct, e)
                continue
            e += 1
        if fname not in keep:
            fr.replace(ct[ts].start, ct[e - 1].end, opaque)
            cnt += 1
        j = e + 1
    if cnt:
        report.add("W2", item, f"{cnt} field(s) of `{name}` not read by extracted code retyped to `{opaque}`", cnt)
    return fr.apply()


def owner_key(impl_name: str) -> str:
    """`impl<..> From<X> for Foo<T>` -> `Foo`;  `impl Foo` -> `Foo`"""
    h = re.sub(r"^impl\b", "", impl_name).strip()
    # drop generic argument lists
    prev = None
    while prev != h:
        prev = h
        h = re.sub(r"<[^<>]*>", "", h)
    h = h.split(" where ")[0].strip()
    if " for " in h:
        h = h.split(" for ")[-1].strip()
    m = re.findall(r"[A-Za-z_][A-Za-z0-9_]*", h)
    return m[-1] if m else ""


def splice_decl(text: str, sp: Splice, item: str) -> str:
    """W3 for a trait method DECLARATION (`fn f(..) -> T;`): name the result and put the contract before the `;`."""
    fr = R.Frag(text)
    ct = fr.ct
    i = 0
    while not (ct[i].kind == "ident" and ct[i].text == "fn"):
        i += 1
    k = i + 2
    if ct[k].text == "<":
        k = R.skip_generics(ct, k)
    pe = R.match_close(ct, k)
    k = pe + 1
    arrow = None
    where = None
    while ct[k].text != ";":
        if ct[k].text == "->" and arrow is None:
            arrow = k
        if ct[k].text == "where" and where is None:
            where = k
        if ct[k].text == "<":
            k = R.skip_generics(ct, k)
            continue
        if ct[k].text in ("(", "["):
            k = R.match_close(ct, k) + 1
            continue
        k += 1
    semi = k
    if sp.ret and arrow is not None:
        ts = arrow + 1
        te = (where if where is not None else semi) - 1
        fr.insert(ct[ts].start, f"({sp.ret}: ")
        fr.insert(ct[te].end, ")")
    if sp.contract:
        fr.insert(ct[semi].start, "\n" + sp.contract)
    return fr.apply()


def splice_fn(text: str, sp: Splice, item: str, vacuity: bool = False) -> str:
    """Apply W3/W4/W5 splices to the text of one `fn` item."""
    fr = R.Frag(text)
    ct = fr.ct
    i = 0
    while not (ct[i].kind == "ident" and ct[i].text == "fn"):
        i += 1
    k = i + 2
    if ct[k].text == "<":
        k = R.skip_generics(ct, k)
    if ct[k].text != "(":
        raise ExtractError(f"{item}: cannot find parameter list")
    pe = R.match_close(ct, k)
    k = pe + 1
    arrow = None
    where = None
    while ct[k].text != "{":
        if ct[k].text == "->" and arrow is None:
            arrow = k
        if ct[k].text == "where" and where is None:
            where = k
        if ct[k].text == "<":
            k = R.skip_generics(ct, k)
            continue
        if ct[k].text in ("(", "["):
            k = R.match_close(ct, k) + 1
            continue
        k += 1
    bo = k
    bc = R.match_close(ct, bo)
    if sp.attrs:
        fr.insert(ct[0].start, sp.attrs)
    if sp.ret:
        if arrow is None:
            fr.insert(ct[pe].end, f" -> ({sp.ret}: ())")
        else:
            ts = arrow + 1
            te = (where if where is not None else bo) - 1
            fr.insert(ct[ts].start, f"({sp.ret}: ")
            fr.insert(ct[te].end, ")")
    if sp.contract:
        fr.insert(ct[bo].start, "\n" + sp.contract)
    if sp.body_start:
        fr.insert(ct[bo].end, "\n" + sp.body_start)
    if vacuity and sp.contract.strip():
        fr.insert(ct[bo].end, f"\nassert(false); // @vacuity.{item.replace('::', '.')}.body\n")
    if sp.body_end:
        fr.insert(ct[bc].start, "\n" + sp.body_end)
    cl_all = R.closures(ct, bo + 1, bc)
    bare = [n for n, c in enumerate(cl_all) if ct[c[1] + 1].text != "->" and n not in sp.closures]
    if len(cl_all) == 0 and sp.closures:
        # every closure is gone: no header can be misapplied, the function is judged by its contract alone
        sp = dataclasses.replace(sp, closures={})
    def _split_hdr(hdr_text: str) -> Tuple[str, List[str]]:
        # W4b: Verus closures take plain variables only.  A header may be followed by lines `let PATTERN = NAME;` that
        # destructure a parameter at the start of the body: `|(a, b)| E` is spliced as `|p: T| -> .. { let (a, b) = p; E }`
        lines = hdr_text.strip().split("\n")
        # (a line `proof { .. }` is put at the start of the body in the same way and binds nothing)
        pro = lambda l: l.strip().startswith("let ") or l.strip().startswith("proof {")
        lets = [l.strip() for l in lines if pro(l)]
        return "\n".join(l for l in lines if not pro(l)), lets
    def _param_names(hdr_text: str) -> List[str]:
        # names bound by a closure header `|a, (b, c): T, mut d|` (types dropped)
        hdr_text, lets = _split_hdr(hdr_text)
        names = _param_names0(hdr_text)
        for l in lets:
            if l.startswith("proof {"):
                continue
            m = re.fullmatch(r"let\s+(.*?)\s*=\s*([A-Za-z_][A-Za-z0-9_]*)\s*;", l)
            if not m:
                raise ExtractError(f"{item}: malformed closure prologue `{l}`")
            names = [m.group(1) if nm == m.group(2) else nm for nm in names]
        return names
    def _param_names0(hdr_text: str) -> List[str]:
        inner = hdr_text.strip()
        inner = inner[inner.index("|") + 1:]
        inner = inner[:inner.index("|")] if "|" in inner else inner
        names = []
        depth = 0
        cur = ""
        for chx in inner + ",":
            if chx in "(<[":
                depth += 1
            elif chx in ")>]":
                depth -= 1
            if chx == "," and depth == 0:
                nm = cur.split(":", 1)[0].replace("mut ", "").strip()
                if nm:
                    names.append(nm)
                cur = ""
            else:
                cur += chx
        return names
    # headers whose closure no longer exists are dropped IF the closures that remain still bind the names their
    # headers bind (so no header slid onto a different closure); anything else is refused below
    extra = [n for n in sp.closures if n >= len(cl_all)]
    if extra and not bare:
        same = all(_param_names(text[ct[cl_all[n][0]].start:ct[cl_all[n][1]].end]) == _param_names(sp.closures[n])
                   for n in sp.closures if n < len(cl_all))
        if same:
            sp = dataclasses.replace(sp, closures={n: h for n, h in sp.closures.items() if n < len(cl_all)})
    if sp.contract.strip() and (bare or any(n >= len(cl_all) for n in sp.closures)):
        # an un-annotated closure is opaque to Verus: whatever then fails to verify would be blamed on the
        # code although it is only undecided.  Refuse instead (UNDECIDED), never alarm.
        raise ExtractError(f"{item}: the function has {len(cl_all)} closure(s), {len(bare)} of them without a contract header "
                           f"(headers are spliced for {sorted(sp.closures)}): closure structure changed, contract cannot be applied")
    if sp.closures:
        cl = cl_all
        for n, hdr in sp.closures.items():
            if n >= len(cl):
                raise ExtractError(f"{item}: closure #{n} not found (function has {len(cl)})")
            hf, hl, bf, bl = cl[n]
            src_names = _param_names(text[ct[hf].start:ct[hl].end])
            hdr_names = _param_names(hdr)
            if src_names != hdr_names and not all(x.startswith("_") for x in src_names):
                simple = lambda xs: all(re.fullmatch(r"[A-Za-z_][A-Za-z0-9_]*", x) for x in xs)
                if len(src_names) == len(hdr_names) and simple(src_names) and simple(hdr_names) and len(set(src_names)) == len(src_names) \
                        and not any(re.search(r"\b" + re.escape(nm) + r"\b", hdr) for nm in src_names if nm not in hdr_names):
                    # the closure's parameters were only renamed: the header follows (positional renaming)
                    tmp = hdr
                    for k2, (o, nw) in enumerate(zip(hdr_names, src_names)):
                        tmp = re.sub(r"\b" + re.escape(o) + r"\b", f"\x00{k2}\x00", tmp)
                    for k2, nw in enumerate(src_names):
                        tmp = tmp.replace(f"\x00{k2}\x00", nw)
                    hdr = tmp
                else:
                    raise ExtractError(f"{item}: closure #{n} binds {src_names}, its contract header binds {hdr_names}: closure structure changed")
            hdr, lets = _split_hdr(hdr)
            fr.replace(ct[hf].start, ct[hl].end, hdr + " ")
            if ct[bf].text != "{":
                fr.insert(ct[bf].start, "{ " + " ".join(lets) + " ")
                fr.insert(ct[bl].end, " }")
            elif lets:
                fr.insert(ct[bf].end, " " + " ".join(lets) + " ")
    if sp.loop_inv or sp.loop_body_start or sp.loop_iter or sp.loop_body_end:
        lp = R.loops(ct, bo + 1, bc)
        wanted = set(sp.loop_inv) | set(sp.loop_body_start) | set(sp.loop_iter) | set(sp.loop_body_end)
        where: Dict[int, int] = {n: n for n in wanted}
        if sp.loop_header and all(n in sp.loop_header for n in wanted):
            # loops are identified by how their header STARTS (`//@ loop N header`): a loop that is no longer there takes
            # its invariants with it instead of shifting everybody else's onto the wrong loop
            where = {}
            depth_of = [sum(1 for (_k2, o2, c2) in lp if o2 < kw < c2) for (kw, _o, _c) in lp]     # loops enclosing each loop
            for n in sorted(wanted):
                htxt = sp.loop_header[n]
                md = re.match(r"\[depth=(\d+)\]\s*", htxt)
                want_depth = int(md.group(1)) if md else None
                pat = R.tokenize_pattern(htxt[md.end():] if md else htxt)
                hits = [k for k, (kw, lbo, lbc) in enumerate(lp) if [t.text for t in ct[kw:kw + len(pat)]] == pat
                        and (want_depth is None or depth_of[k] == want_depth)]
                if len(hits) == 1:
                    where[n] = hits[0]
                elif len(hits) > 1:
                    raise ExtractError(f"{item}: loop header `{sp.loop_header[n]}` matches {len(hits)} loops")
            if len(set(where.values())) != len(where):
                raise ExtractError(f"{item}: two loop splices landed on the same loop")
            # a loop that matches NO declared header is a loop nobody wrote an invariant for (or one whose header was merely
            # rewritten): dropping the invariants of the loop it replaced would turn "cannot prove" into an alarm -- refuse
            unknown = [k for k in range(len(lp)) if k not in where.values()]
            if unknown and len(where) < len(wanted):
                raise ExtractError(f"{item}: {len(unknown)} loop(s) match no `//@ loop N header` while {len(wanted) - len(where)} declared loop(s) "
                                   f"were not found: loop structure changed, invariants cannot be applied")
        for n in wanted:
            if n not in where:
                # the loop is gone: the function is judged without that loop's invariants; their labels are recorded so
                # that a FAILED verdict is not turned into "undecided" merely because those obligations no longer exist
                labs = re.findall(r"//\s*@([A-Za-z_][A-Za-z0-9_]*)", sp.loop_inv.get(n, "") + sp.loop_body_start.get(n, "") + sp.loop_body_end.get(n, ""))
                fr.insert(ct[bo].end, f"\n// DROPPED-LOOP {item} #{n}: {','.join(labs)}\n")
                continue
            if where[n] >= len(lp):
                raise ExtractError(f"{item}: loop #{n} not found (function has {len(lp)})")
            kw, lbo, lbc = lp[where[n]]
            if n in sp.loop_iter:
                j = kw
                while ct[j].text != "in":
                    j += 1
                fr.insert(ct[j].end, f" {sp.loop_iter[n]}:")
            if n in sp.loop_inv:
                fr.insert(ct[lbo].start, "\n" + sp.loop_inv[n])
            if n in sp.loop_body_start:
                fr.insert(ct[lbo].end, "\n" + sp.loop_body_start[n])
            if n in sp.loop_body_end:
                fr.insert(ct[lbc].start, "\n" + sp.loop_body_end[n])
            if vacuity and n in sp.loop_inv:
                fr.insert(ct[lbo].end, f"\nassert(false); // @vacuity.{item.replace('::', '.')}.loop{n}\n")
    for which, lst in (("before", sp.before), ("after", sp.after)):
        for pat, n, txt in lst:
            seq = R.tokenize_pattern(pat)
            idx = R.find_seq(ct, seq, bo + 1, bc)
            if n >= len(idx):
                raise ExtractError(f"{item}: anchor `{pat}` #{n} not found ({len(idx)} occurrences)")
            if which == "before":
                fr.insert(ct[idx[n]].start, txt)
            else:
                fr.insert(ct[idx[n] + len(seq) - 1].end, txt)
    return fr.apply()


# ---------------------------------------------------------------------------
# assembling a unit


@dataclass
class Chunk:
    origin: str            # prelude | spec | repo
    label: str             # item label
    text: str
    file: Optional[str] = None
    lines: Optional[Tuple[int, int]] = None
    sha256: Optional[str] = None
    fns: List[str] = field(default_factory=list)
    out_lines: Tuple[int, int] = (0, 0)


class Unit:
    def __init__(self, name: str):
        self.name = name
        self.dir = os.path.join(VERIF, "contracts", name)
        with open(os.path.join(self.dir, "unit.toml"), "rb") as f:
            self.cfg = tomllib.load(f)
        inc_items = []
        for rel in self.cfg.get("include_items", []):
            with open(os.path.join(self.dir, rel), "rb") as f:
                inc = tomllib.load(f)
            inc_items += inc.get("item", [])
            self.cfg.setdefault("subst", [])
            self.cfg["subst"] = inc.get("subst", []) + self.cfg["subst"]
        self.cfg["item"] = inc_items + self.cfg.get("item", [])
        self.report = DropReport()
        self.chunks: List[Chunk] = []
        self.spans: List[dict] = []

    # -- extraction of one configured item
    def _extract_item(self, icfg: dict, variant: Optional[str], vacuity: bool = False) -> Chunk:
        relfile = icfg["file"]
        src = R.Source(os.path.join(REPO, relfile))
        if icfg.get("macro_expand"):
            # W15: one invocation of a macro_rules! macro is expanded mechanically (single-level `$( .. ) sep? *`
            # repetitions over the invocation's argument tuples); the expansion is then extracted like source text
            expanded = expand_macro_rules(src, icfg["macro_expand"], int(icfg.get("invocation", 0)), self.report, icfg.get("label", icfg["select"]))
            src = R.Source(os.path.join(REPO, relfile) + f"#expansion-of-{icfg['macro_expand']}", expanded)
        it = src.find(icfg["select"])
        label = icfg.get("label", icfg["select"])
        substs = list(self.cfg.get("subst", [])) + list(icfg.get("subst", []))
        fns: List[str] = []

        trait_impl = it.kind == "impl" and " for " in it.name

        def prep_fn(text: str, fname: str, owner: str) -> str:
            itemname = f"{owner}::{fname}" if owner else fname
            if icfg.get("drop_cfg_features"):
                text = drop_cfg_gated(text, icfg["drop_cfg_features"], self.report, itemname)
            text = strip_attributes(text, self.report, itemname) if icfg.get("strip_attrs", True) else text
            text = name_wildcard_params(text, self.report, itemname)
            if self.cfg.get("erase_await") or icfg.get("erase_await"):
                text = erase_await(text, self.report, itemname)
            sink = icfg.get("yield_sink") or self.cfg.get("yield_sink")
            if sink:
                text = rewrite_yield(text, sink, self.report, itemname)
            if icfg.get("format_one_arg"):
                text = format_one_arg(text, icfg["format_one_arg"], self.report, itemname)
            if icfg.get("w6", self.cfg.get("w6", False)):
                text = w6_message_text(text, self.report, itemname)
            if icfg.get("drop_cfg_features"):
                text = drop_cfg_gated(text, icfg["drop_cfg_features"], self.report, itemname)
            for ex in icfg.get("excise", []):
                text = excise_match(text, ex["scrutinee"], ex["replace"], self.report, itemname)
            for anc in icfg.get("split_or_guard_arm", []):
                text = split_or_guard_arm(text, anc, self.report, itemname)
            if icfg.get("tail_loop_break_to_return"):
                text = tail_loop_break_to_return(text, self.report, itemname)
            if icfg.get("mut_self_to"):
                text = mut_self_to_local(text, icfg["mut_self_to"], self.report, itemname)
            for fw in icfg.get("for_to_while", []):
                text = for_to_while(text, fw["anchor"], fw["iter"], self.report, itemname, fw.get("by_value", False))
            for ex in icfg.get("excise_range", []):
                text = excise_range(text, ex["start"], ex["last"], ex.get("replace", ""), self.report, itemname)
            for ex in icfg.get("excise_stmt", []):
                text = excise_stmt(text, ex["anchor"], ex.get("replace", ""), self.report, itemname)
            if icfg.get("panic_to"):
                # W9b: in functions that reject by panicking (HttpRouter::insert), each `panic!(msg..)` becomes a call
                # of a diverging stand-in whose precondition demands a justification for the rejection
                text = strip_macro_calls(text, ["panic"], icfg["panic_to"], self.report, itemname, "W9b")
                if icfg.get("assert_to_reject"):
                    text = assert_to_reject(text, icfg["panic_to"], self.report, itemname)
            text = w9_panic_args(text, self.report, itemname)
            if icfg.get("desugar_try"):
                text = desugar_try(text, self.report, itemname, icfg.get("try_keep"))
            dm = icfg.get("drop_macros", self.cfg.get("drop_macros"))
            if dm:
                # W6: logging macro invocations (slog `debug!`/`error!`/..) become the unit value
                text = strip_macro_calls(text, dm, "()", self.report, itemname, "W6")
            text = apply_token_substs(text, substs, self.report, itemname)
            sp = self._splice_for(fname, variant, owner)
            text = splice_fn(text, sp, itemname, vacuity)
            text = publicise(text, "fn", self.report, itemname, in_trait_impl=trait_impl)
            return text

        if it.kind == "fn":
            raw = src.text_of(it)
            sha = hashlib.sha256(raw.encode()).hexdigest()
            text = prep_fn(raw, it.name, icfg.get("owner", ""))
            fns.append(it.name)
            self.spans.append({"item": label, "file": relfile, "lines": [src.line_of(it.start), src.line_of(it.end - 1)], "sha256": sha})
            return Chunk("repo", label, text, relfile, (src.line_of(it.start), src.line_of(it.end - 1)), sha, fns)

        if it.kind == "impl":
            only = icfg.get("only")
            if not only:
                raise ExtractError(f"{label}: impl items need an `only` list")
            header = src.text[it.start:src.ct[it.body_open].end]
            header = apply_token_substs(header, [dict(x, required=False) for x in substs], self.report, label)
            if "header" in icfg:
                self.report.add("W2", label, f"impl header `{' '.join(header.split())}` -> `{icfg['header']}`")
                header = icfg["header"] + " {"
            kids = {f"{c.kind} {c.name}": c for c in src.children(it) if not c.is_test}
            parts = [header]
            owner = icfg.get("owner") or owner_key(it.name)
            for sel in only:
                if sel not in kids:
                    raise ExtractError(f"{relfile}: `{sel}` not found in `{it.name}`")
                c = kids[sel]
                raw = src.text_of(c)
                sha = hashlib.sha256(raw.encode()).hexdigest()
                self.spans.append({"item": f"{label}/{sel}", "file": relfile, "lines": [src.line_of(c.start), src.line_of(c.end - 1)], "sha256": sha})
                if c.kind == "fn":
                    parts.append(prep_fn(raw, c.name, owner))
                    fns.append(c.name)
                else:
                    parts.append(publicise(apply_token_substs(strip_attributes(raw, self.report, sel), substs, self.report, sel), c.kind, self.report, sel, trait_impl))
            if icfg.get("extra_items"):
                parts.append(icfg["extra_items"])
                self.report.add("W3", label, "ghost spec item(s) added to the impl")
            parts.append("}")
            return Chunk("repo", label, "\n\n".join(parts), relfile, (src.line_of(it.start), src.line_of(it.end - 1)), None, fns)

        if it.kind in ("struct", "enum", "const", "type", "static"):
            # include the attributes in front of the item so that W0 can keep the derives Verus understands
            raw = src.text[it.attr_start:it.end]
            sha = hashlib.sha256(raw.encode()).hexdigest()
            text = strip_attributes(raw, self.report, label, icfg.get("drop_derives"))
            if it.kind == "struct" and "keep_fields" in icfg:
                text = retype_fields(text, icfg["keep_fields"], self.report, label)
            text = apply_token_substs(text, substs, self.report, label)
            if it.kind in ("const", "static"):
                # the language elides `'static` in const/static item types; the verus! macro (which lowers
                # consts to functions) needs it written out
                fr = R.Frag(text)
                for i, t in enumerate(fr.ct[:-1]):
                    if t.text == "&" and fr.ct[i + 1].kind != "lifetime":
                        fr.insert(t.end, "'static ")
                        self.report.add("W0", label, "elided `'static` lifetime of a const item written out")
                text = fr.apply()
            text = publicise(text, it.kind, self.report, label)
            if "attrs" in icfg:
                # annotation only: a Verus datatype attribute (e.g. reject_recursive_types) in front of the item
                text = icfg["attrs"] + "\n" + text
                self.report.add("W3", label, f"Verus attribute `{icfg['attrs']}` added")
            self.spans.append({"item": label, "file": relfile, "lines": [src.line_of(it.start), src.line_of(it.end - 1)], "sha256": sha})
            return Chunk("repo", label, text, relfile, (src.line_of(it.start), src.line_of(it.end - 1)), sha, [])

        if it.kind == "trait":
            # a trait declaration (signatures only) is copied whole, or restricted to the methods in `only`
            raw = src.text_of(it)
            sha = hashlib.sha256(raw.encode()).hexdigest()
            if icfg.get("only"):
                kids = {f"{c.kind} {c.name}": c for c in src.children(it)}
                head = src.text[it.start:src.ct[it.body_open].end]
                parts = [head]
                for sel in icfg["only"]:
                    if sel not in kids:
                        raise ExtractError(f"{relfile}: `{sel}` not found in trait `{it.name}`")
                    ktext = src.text_of(kids[sel])
                    if kids[sel].kind == "fn" and kids[sel].body_open is None:
                        spd = self._splice_for(kids[sel].name, variant, it.name)
                        if spd.ret or spd.contract:
                            ktext = splice_decl(ktext, spd, f"{it.name}::{kids[sel].name}")
                    elif kids[sel].kind == "fn":
                        # a provided (default) method: verified like any function, once, generically
                        ktext = splice_fn(ktext, self._splice_for(kids[sel].name, variant, it.name), f"{it.name}::{kids[sel].name}", vacuity)
                    parts.append(ktext)
                if icfg.get("extra_items"):
                    # ghost items (spec fn declarations) added to the trait: annotation only
                    parts.append(icfg["extra_items"])
                    self.report.add("W3", label, "ghost spec item(s) added to the trait")
                parts.append("}")
                dropped = sorted(set(kids) - set(icfg["only"]))
                if dropped:
                    self.report.add("W2", label, f"trait items not used by the extracted code dropped: {dropped}")
                raw = "\n".join(parts)
            if self.cfg.get("erase_await") or icfg.get("erase_await"):
                raw = erase_await(raw, self.report, label)
            text = apply_token_substs(strip_attributes(raw, self.report, label), substs, self.report, label)
            if not text.lstrip().startswith("pub"):
                text = "pub " + text
            self.spans.append({"item": label, "file": relfile, "lines": [src.line_of(it.start), src.line_of(it.end - 1)], "sha256": sha})
            return Chunk("repo", label, text, relfile, (src.line_of(it.start), src.line_of(it.end - 1)), sha, [])

        if it.kind == "macro":
            raise ExtractError(f"{label}: macro items are extracted through `block_of`")
        raise ExtractError(f"{label}: unsupported item kind {it.kind}")

    def _extract_block(self, icfg: dict, variant: Optional[str], vacuity: bool = False) -> Chunk:
        """`block_of`: the brace block following the first `<macro>!` inside fn
        X, wrapped into a function whose signature comes from the unit."""
        relfile = icfg["file"]
        src = R.Source(os.path.join(REPO, relfile))
        it = src.find(icfg["select"])
        label = icfg.get("label", icfg["select"] + " / " + icfg["block_of"] + "!{..}")
        ct = src.ct
        mac = icfg["block_of"].split("::")
        hit = None
        for i in range(it.body_open, it.body_close):
            if ct[i].text == mac[-1] and ct[i + 1].text == "!" and ct[i + 2].text == "{":
                hit = i + 2
                break
        if hit is None:
            raise ExtractError(f"{label}: `{icfg['block_of']}!{{` not found in {icfg['select']}")
        e = R.match_close(ct, hit)
        raw = src.text[ct[hit].end:ct[e].start]
        sha = hashlib.sha256(raw.encode()).hexdigest()
        l1, l2 = src.line_of(ct[hit].start), src.line_of(ct[e].start)
        self.spans.append({"item": label, "file": relfile, "lines": [l1, l2], "sha256": sha})
        fname = icfg["wrap_fn"]
        self.report.add("W8", label, f"block of `{icfg['block_of']}!` wrapped as `{icfg['wrap_sig']}` with trailing `{icfg.get('wrap_tail', '')}`")
        text = icfg["wrap_sig"] + " {" + icfg.get("wrap_head", "") + raw + "\n" + icfg.get("wrap_tail", "") + "\n}"
        substs = list(self.cfg.get("subst", [])) + list(icfg.get("subst", []))
        itemname = fname
        text = erase_await(text, self.report, itemname)
        sink = icfg.get("yield_sink")
        if sink:
            text = rewrite_yield(text, sink, self.report, itemname)
        if icfg.get("w6", self.cfg.get("w6", False)):
            text = w6_message_text(text, self.report, itemname)
        text = apply_token_substs(text, substs, self.report, itemname)
        text = splice_fn(text, self._splice_for(fname, variant, icfg.get("owner", "")), itemname, vacuity)
        if "wrap_impl" in icfg:
            text = icfg["wrap_impl"] + " {\n" + text + "\n}"
        return Chunk("repo", label, text, relfile, (l1, l2), sha, [fname])

    def _extract_closure(self, icfg: dict, variant: Optional[str], vacuity: bool = False) -> Chunk:
        """`closure_of`: W12 -- the body of the n-th closure of fn X becomes the body of a named function whose
        signature (the closure's parameter with its type written out, and the return type) comes from the unit.
        The enclosing expression (typically an iterator chain Verus cannot take) is NOT verified."""
        relfile = icfg["file"]
        src = R.Source(os.path.join(REPO, relfile))
        it = src.find(icfg["select"])
        n = int(icfg["closure_of"])
        label = icfg.get("label", f"{icfg['select']} / closure #{n}")
        ct = src.ct
        cl = R.closures(ct, it.body_open + 1, it.body_close)
        if n >= len(cl):
            raise ExtractError(f"{label}: closure #{n} not found (function has {len(cl)})")
        hf, hl, bf, bl = cl[n]
        hdr = src.text[ct[hf].start:ct[hl].end]
        want = icfg.get("closure_header")
        if want is not None and "".join(hdr.split()) != "".join(want.split()):
            raise ExtractError(f"{label}: closure #{n} has header `{hdr}`, expected `{want}`")
        raw = src.text[ct[bf].start:ct[bl].end]
        sha = hashlib.sha256(raw.encode()).hexdigest()
        l1, l2 = src.line_of(ct[bf].start), src.line_of(ct[bl].end - 1)
        self.spans.append({"item": label, "file": relfile, "lines": [l1, l2], "sha256": sha})
        fname = icfg["wrap_fn"]
        self.report.add("W12", label, f"closure `{hdr}` wrapped as `{icfg['wrap_sig']}`; the enclosing expression is not verified")
        body = raw if ct[bf].text == "{" else "{ " + raw + " }"
        if icfg.get("wrap_head"):
            body = "{ " + icfg["wrap_head"] + " " + body + " }"
        text = icfg["wrap_sig"] + " " + body
        substs = list(self.cfg.get("subst", [])) + list(icfg.get("subst", []))
        if icfg.get("w6", self.cfg.get("w6", False)):
            text = w6_message_text(text, self.report, fname)
        if icfg.get("desugar_try"):
            text = desugar_try(text, self.report, fname)
        text = apply_token_substs(text, substs, self.report, fname)
        text = splice_fn(text, self._splice_for(fname, variant, icfg.get("owner", "")), fname, vacuity)
        return Chunk("repo", label, text, relfile, (l1, l2), sha, [fname])

    def _extract_let(self, icfg: dict, variant: Optional[str], vacuity: bool = False) -> Chunk:
        """`let_of`: W12b -- the initialiser of ONE `let` statement of fn X (found by the token sequence that starts the
        statement, e.g. `let method_ref =`) becomes the body of a named function whose signature comes from the unit.
        Everything around that statement is not verified by this item."""
        relfile = icfg["file"]
        src = R.Source(os.path.join(REPO, relfile))
        it = src.find(icfg["select"])
        label = icfg.get("label", f"{icfg['select']} / `{icfg['let_of']} ..`")
        ct = src.ct
        seq = R.tokenize_pattern(icfg["let_of"])
        idx = R.find_seq(ct, seq, it.body_open + 1, it.body_close)
        if len(idx) != 1:
            raise ExtractError(f"{label}: `{icfg['let_of']}` matched {len(idx)} times")
        if seq[0] != "let":
            raise ExtractError(f"{label}: the anchor must start with `let`")
        # the initialiser starts after the FIRST `=` of the anchor (the anchor may go on, to tell several `let x =` apart)
        if "=" not in seq:
            raise ExtractError(f"{label}: the anchor must contain `=`")
        k = idx[0] + seq.index("=") + 1
        e = k
        depth = 0
        while True:
            tt = ct[e].text
            if tt in R.OPEN:
                depth += 1
            elif tt in R.CLOSE:
                depth -= 1
            elif tt == ";" and depth == 0:
                break
            e += 1
        raw = src.text[ct[k].start:ct[e - 1].end]
        sha = hashlib.sha256(raw.encode()).hexdigest()
        l1, l2 = src.line_of(ct[k].start), src.line_of(ct[e - 1].end - 1)
        self.spans.append({"item": label, "file": relfile, "lines": [l1, l2], "sha256": sha})
        fname = icfg["wrap_fn"]
        self.report.add("W12", label, f"initialiser of `{icfg['let_of']} ..;` wrapped as `{icfg['wrap_sig']}`; the statements around it are not verified by this item")
        text = icfg["wrap_sig"] + " { " + icfg.get("wrap_head", "") + " " + raw + " }"
        substs = list(self.cfg.get("subst", [])) + list(icfg.get("subst", []))
        if icfg.get("w6", self.cfg.get("w6", False)):
            text = w6_message_text(text, self.report, fname)
        text = w9_panic_args(text, self.report, fname)
        text = apply_token_substs(text, substs, self.report, fname)
        text = splice_fn(text, self._splice_for(fname, variant, icfg.get("owner", "")), fname, vacuity)
        return Chunk("repo", label, text, relfile, (l1, l2), sha, [fname])

    def _extract_stmts(self, icfg: dict, variant: Optional[str], vacuity: bool = False) -> Chunk:
        """`stmts_from` / `stmts_last`: W12c -- a RUN of consecutive statements of fn X (from the statement that starts with the
        tokens `stmts_from` through the one that starts with `stmts_last`, each ending at its `;` at depth 0) becomes the body
        of a named function whose signature and tail expression come from the unit.  Everything around is not verified by
        this item."""
        relfile = icfg["file"]
        src = R.Source(os.path.join(REPO, relfile))
        it = src.find(icfg["select"])
        label = icfg.get("label", f"{icfg['select']} / `{icfg['stmts_from']} ..` through `{icfg['stmts_last']} ..`")
        ct = src.ct
        i0 = R.find_seq(ct, R.tokenize_pattern(icfg["stmts_from"]), it.body_open + 1, it.body_close)
        i1 = R.find_seq(ct, R.tokenize_pattern(icfg["stmts_last"]), it.body_open + 1, it.body_close)
        if len(i0) != 1 or len(i1) != 1 or i1[0] < i0[0]:
            raise ExtractError(f"{label}: anchors matched {len(i0)} / {len(i1)} times")
        e = i1[0]
        depth = 0
        while True:
            tt = ct[e].text
            if tt in R.OPEN:
                depth += 1
            elif tt in R.CLOSE:
                depth -= 1
            elif tt == ";" and depth == 0:
                break
            e += 1
        raw = src.text[ct[i0[0]].start:ct[e].end]
        sha = hashlib.sha256(raw.encode()).hexdigest()
        l1, l2 = src.line_of(ct[i0[0]].start), src.line_of(ct[e].end - 1)
        self.spans.append({"item": label, "file": relfile, "lines": [l1, l2], "sha256": sha})
        fname = icfg["wrap_fn"]
        self.report.add("W12", label, f"statements `{icfg['stmts_from']} ..` through `{icfg['stmts_last']} ..;` wrapped as `{icfg['wrap_sig']}` returning `{icfg.get('wrap_tail', '()')}`; the statements around them are not verified by this item")
        text = icfg["wrap_sig"] + " { " + icfg.get("wrap_head", "") + "\n" + raw + "\n" + icfg.get("wrap_tail", "") + "\n}"
        substs = list(self.cfg.get("subst", [])) + list(icfg.get("subst", []))
        if icfg.get("w6", self.cfg.get("w6", False)):
            text = w6_message_text(text, self.report, fname)
        text = w9_panic_args(text, self.report, fname)
        text = apply_token_substs(text, substs, self.report, fname)
        text = splice_fn(text, self._splice_for(fname, variant, icfg.get("owner", "")), fname, vacuity)
        return Chunk("repo", label, text, relfile, (l1, l2), sha, [fname])

    def _splice_for(self, fname: str, variant: Optional[str], owner: str = "") -> Splice:
        names = ([f"{owner}.{fname}"] if owner else []) + [fname]
        dirs = (self.dir, os.path.join(VERIF, "contracts", "_common"))
        if variant:
            for d in dirs:
                for nm in names:
                    v = os.path.join(d, "splice", f"{nm}.{variant}.rs")
                    if os.path.exists(v):
                        return parse_splice(v)
        for d in dirs:
            for nm in names:
                base = os.path.join(d, "splice", nm + ".rs")
                if os.path.exists(base):
                    return parse_splice(base)
        return Splice()

    def assemble(self, variant: Optional[str] = None, vacuity: bool = False) -> str:
        self.report = DropReport()
        self.chunks = []
        self.spans = []
        prelude = open(os.path.join(self.dir, "prelude.rs"), encoding="utf-8").read()
        m = re.search(r"^//@ items\s*$", prelude, re.M)
        if not m:
            raise ValueError("prelude.rs needs a `//@ items` line separating `use` lines from items")
        uses, pitems = prelude[:m.start()], prelude[m.end():]

        def _inc(mm):
            return open(os.path.join(self.dir, mm.group(1)), encoding="utf-8").read()
        pitems = re.sub(r"^//@ include (\S+)\s*$", _inc, pitems, flags=re.M)
        spec = open(os.path.join(self.dir, "spec.rs"), encoding="utf-8").read()
        if variant:
            vs = os.path.join(self.dir, f"spec.{variant}.rs")
            if os.path.exists(vs):
                spec = open(vs, encoding="utf-8").read()
        self.chunks.append(Chunk("prelude", "prelude.rs (TRUSTED)", pitems))
        for icfg in self.cfg.get("item", []):
            if "closure_of" in icfg:
                ch = self._extract_closure(icfg, variant, vacuity)
            elif "let_of" in icfg:
                ch = self._extract_let(icfg, variant, vacuity)
            elif "stmts_from" in icfg:
                ch = self._extract_stmts(icfg, variant, vacuity)
            elif "block_of" in icfg:
                ch = self._extract_block(icfg, variant, vacuity)
            else:
                ch = self._extract_item(icfg, variant, vacuity)
            self.chunks.append(ch)
        def _inc2(mm):
            return open(os.path.join(self.dir, mm.group(1)), encoding="utf-8").read()
        spec = re.sub(r"^//@ include (\S+)\s*$", _inc2, spec, flags=re.M)
        self.chunks.append(Chunk("spec", "spec.rs (CHECKED)", spec))
        head = (f"// GENERATED by tools/vx.py for unit {self.name}"
                + (f" variant={variant}" if variant else "") + (" vacuity-run" if vacuity else "")
                + "\n// extracted from " + REPO + " on every run; do not edit\n"
                + "#![allow(unused_imports, unused_variables, dead_code, unused_mut, unused_parens, unused_braces, non_snake_case, unreachable_code, unused_must_use)]\n"
                + "".join(f"#![feature({f})]\n" for f in self.cfg.get("crate_features", []))
                + uses.strip() + "\nverus! {\n")
        out = [head]
        line = head.count("\n") + 1
        for ch in self.chunks:
            banner = f"\n// ======== [{ch.origin}] {ch.label}" + (f"  <- {ch.file}:{ch.lines[0]}-{ch.lines[1]}" if ch.file else "") + "\n"
            out.append(banner)
            line += banner.count("\n")
            t = ch.text if ch.text.endswith("\n") else ch.text + "\n"
            ch.out_lines = (line, line + t.count("\n") - 1)
            out.append(t)
            line += t.count("\n")
        out.append("\n} // verus!\nfn main() {}\n")
        return "".join(out)


def publicise(text: str, kind: str, report: DropReport, item: str, in_trait_impl: bool = False) -> str:
    """W0: the assembled file is one module and visibility has no runtime meaning, so every extracted
    item and struct field is made `pub` (`pub(crate)`/`pub(super)` -> `pub`).  This lets contracts
    (which Verus checks for visibility consistency) mention fields and helper functions freely."""
    fr = R.Frag(text)
    ct = fr.ct
    n = 0
    # narrow visibilities
    i = 0
    while i < len(ct) - 1:
        if ct[i].kind == "ident" and ct[i].text == "pub" and ct[i + 1].text == "(" and ct[i + 2].text in ("crate", "super", "self", "in"):
            e = R.match_close(ct, i + 1)
            fr.replace(ct[i + 1].start, ct[e].end, "")
            n += 1
            i = e
        i += 1
    h = 0
    while h < len(ct) and ct[h].text == "#":
        h = R.match_close(ct, h + 1) + 1
    if not in_trait_impl and h < len(ct) and ct[h].text != "pub" and kind in ("fn", "struct", "enum", "const", "static", "type"):
        fr.insert(ct[h].start, "pub ")
        n += 1
    if kind == "struct":
        k = h
        while k < len(ct) and ct[k].text != "struct":
            k += 1
        while k < len(ct) and ct[k].text not in ("{", "(", ";"):
            if ct[k].text == "<":
                k = R.skip_generics(ct, k)
                continue
            k += 1
        if k < len(ct) and ct[k].text in ("{", "("):
            named = ct[k].text == "{"
            bc = R.match_close(ct, k)
            j = k + 1
            start_of_field = True
            while j < bc:
                tt = ct[j].text
                if start_of_field:
                    while ct[j].text == "#":
                        j = R.match_close(ct, j + 1) + 1
                    if j >= bc:
                        break
                    if ct[j].text != "pub":
                        fr.insert(ct[j].start, "pub ")
                        n += 1
                    start_of_field = False
                    continue
                if tt in R.OPEN:
                    j = R.match_close(ct, j) + 1
                    continue
                if tt == "<":
                    j = R.skip_generics(ct, j)
                    continue
                if tt == ",":
                    start_of_field = True
                j += 1
    if n:
        report.add("W0", item, "visibility widened to `pub`", n)
    return fr.apply()


# ---------------------------------------------------------------------------
# running Verus and classifying


def run_verus(path: str, rlimit: float, extra: List[str] = ()) -> dict:
    cmd = ["verus", path, "--output-json", "--time-expanded", "--error-format=json",
           "--rlimit", str(rlimit), "--multiple-errors", "8", "--num-threads", "8"] + list(extra)
    t0 = time.time()
    env = dict(os.environ)
    p = subprocess.run(cmd, capture_output=True, text=True, cwd=os.path.dirname(path), env=env, timeout=1800)
    wall = time.time() - t0
    res = {"cmd": " ".join(cmd), "exit": p.returncode, "wall_s": wall, "json": None, "diags": [], "raw_err": ""}
    try:
        res["json"] = json.loads(p.stdout)
    except Exception:
        res["raw_out"] = p.stdout[-4000:]
    raw = []
    for line in p.stderr.splitlines():
        line = line.strip()
        if not line:
            continue
        try:
            d = json.loads(line)
            if isinstance(d, dict) and "message" in d:
                res["diags"].append(d)
            else:
                raw.append(line)
        except Exception:
            raw.append(line)
    res["raw_err"] = "\n".join(raw)[-4000:]
    return res


def fn_ranges(text: str) -> List[Tuple[str, int, int, str]]:
    """(name, first_line, last_line, mode) for every fn in the assembled file."""
    src = R.Source("<assembled>", text)
    out = []

    def walk(items, prefix):
        for it in items:
            if it.kind == "fn":
                if it.body_open is None:
                    # a trait method declaration: its clauses are obligations of each impl, where Verus reports them
                    continue
                # mode: look back a few tokens for spec/proof
                mode = "exec"
                j = it.first_tok
                k = j
                while src.ct[k].text != "fn":
                    if src.ct[k].text in ("spec", "proof", "axiom"):
                        mode = src.ct[k].text
                    k += 1
                out.append((prefix + it.name, src.line_of(it.attr_start), src.line_of(it.end - 1), mode))
            elif it.kind == "impl":
                walk(src.children(it), owner_key(it.name) + "::")
            elif it.kind in ("mod", "trait"):
                walk(src.children(it), prefix)
    for it in src.top_items():
        if it.kind == "macro" and it.name == "verus":
            walk(R.items_in(src.ct, it.body_open + 1, it.body_close), "")
    return out


def labels_in(text: str) -> Dict[int, str]:
    labs = {}
    for n, line in enumerate(text.splitlines(), 1):
        m = re.search(r"//\s*@([A-Za-z0-9_.\-]+)\s*$", line)
        if m:
            labs[n] = m.group(1)
    return labs


@dataclass
class UnitResult:
    unit: str
    variant: Optional[str]
    status: str                     # ok | failed | undecided
    reason: str = ""
    obligations: List[str] = field(default_factory=list)
    discharged: List[str] = field(default_factory=list)
    failed: List[dict] = field(default_factory=list)
    functions: List[dict] = field(default_factory=list)
    wall_s: float = 0.0
    smt_ms: int = 0
    cmd: str = ""
    path: str = ""
    drop_report: List[dict] = field(default_factory=list)
    spans: List[dict] = field(default_factory=list)
    trusted: List[str] = field(default_factory=list)
    vacuity: dict = field(default_factory=dict)
    sentinels: dict = field(default_factory=dict)


def enumerate_obligations(text: str) -> Tuple[List[str], Dict[str, Tuple[int, int]], Dict[int, str]]:
    """Obligation names derivable statically from the assembled file:
    for each exec/proof fn F: `F#<label>` for every labelled clause line inside
    F plus `F#safety` (everything Verus checks implicitly in F: callee
    preconditions, panic-freedom, overflow, termination measures)."""
    labs = labels_in(text)
    obs: List[str] = []
    ranges: Dict[str, Tuple[int, int]] = {}
    lab_of_line: Dict[int, str] = {}
    seen = {}
    for name, a, b, mode in fn_ranges(text):
        if mode in ("spec", "axiom"):
            continue
        # external_body fns are trusted, not obligations
        seg = "\n".join(text.splitlines()[a - 1:b])
        if "external_body" in seg.split("fn " + name.split("::")[-1])[0]:
            continue
        key = name
        if key in seen:
            seen[key] += 1
            key = f"{name}~{seen[name]}"
        else:
            seen[key] = 0
        ranges[key] = (a, b)
        for ln in range(a, b + 1):
            if ln in labs and not labs[ln].startswith("vacuity"):
                obs.append(f"{key}#{labs[ln]}")
                lab_of_line[ln] = f"{key}#{labs[ln]}"
        obs.append(f"{key}#safety")
    # every label must lie inside some function (a brace at the top level of a contract clause makes the lexer end
    # the function early: wrap such a clause in parentheses)
    spec_ranges = [(a, b) for _n, a, b, _m in fn_ranges(text)]
    for ln, lab in labs.items():
        if lab.startswith("vacuity"):
            continue
        if not any(a <= ln <= b for a, b in spec_ranges):
            raise ExtractError(f"label @{lab} (assembled line {ln}) lies outside every function range")
    return obs, ranges, lab_of_line


_NOT_CALLEES = {"if", "match", "while", "for", "return", "fn", "loop", "in", "as", "let", "assert", "forall", "exists", "choose", "requires", "ensures", "invariant", "decreases", "proof", "implies", "by"}


def callee_vocabulary(text: str) -> set:
    """(kind, name) for every call-like token in `text`: ("m", x) for `.x(`, ("f", x) for `x(` / `path::x(`,
    ("!", x) for `x!(`.  Used to notice that extracted code now calls something its contract was never proved
    against (whose vstd contract may be too weak to decide anything): failures there are UNDECIDED, not violations."""
    toks = R.code_tokens(R.lex(text))
    out = set()
    for i, t in enumerate(toks[:-1]):
        if t.kind != "ident" or t.text in _NOT_CALLEES:
            continue
        nxt = toks[i + 1].text
        if nxt == "(":
            kind = "m" if i > 0 and toks[i - 1].text == "." else "f"
            out.add((kind, t.text))
        elif nxt == "::" and i + 3 < len(toks) and toks[i + 2].text == "<":
            pass
        elif nxt == "!" and i + 2 < len(toks) and toks[i + 2].text in R.OPEN:
            out.add(("!", t.text))
    return out


def vstd_precise_names() -> set:
    """method/function names for which the installed vstd ships a contract on a CONCRETE type (decoded from vstd.vir,
    tools/vstd_specs_decoded.txt); blanket entries `<T as Trait>::m` are excluded: their contracts are stated through
    uninterpreted per-type spec functions and may decide nothing for a given type (e.g. Ord::min on NonZeroU32)."""
    out = set()
    try:
        for l in open(os.path.join(os.path.dirname(os.path.abspath(__file__)), "vstd_specs_decoded.txt")):
            l = l.strip()
            if not l or l.startswith("<Tas") or l.startswith("<T as"):
                continue
            m = re.search(r"::([A-Za-z_][A-Za-z0-9_]*)(?:::<[^>]*>)?$", l)
            if m:
                out.add(m.group(1))
    except OSError:
        pass
    return out


def scan_trusted(text: str) -> List[str]:
    """Mechanical scan for assumptions in the assembled file."""
    out = []
    lines = text.splitlines()
    for n, line in enumerate(lines, 1):
        s = line.strip()
        if s.startswith("//"):
            continue
        for kw in ("external_body", "assume_specification", "axiom fn", "uninterp spec fn", "admit(", "assume(", "external_type_specification", "external_trait_specification", "exec_allows_no_decreases_clause", "#[verifier::external]"):
            if kw in s:
                # give the declaration line that follows an attribute
                decl = s
                if s.startswith("#[") and n < len(lines):
                    k = n
                    while k < len(lines) and (lines[k].strip().startswith("#[") or not lines[k].strip()):
                        k += 1
                    decl = s + " " + lines[k].strip() if k < len(lines) else s
                out.append(f"{kw}: {decl[:160]}")
                break
    return out


def classify(unit: Unit, text: str, res: dict, expect_fail_prefix=("sentinel_",)) -> UnitResult:
    ur = UnitResult(unit.name, None, "ok")
    ur.cmd = res["cmd"]
    ur.wall_s = res["wall_s"]
    j = res["json"]
    obs, ranges, lab_of_line = enumerate_obligations(text)
    ur.obligations = obs
    if j is None:
        ur.status = "undecided"
        ur.reason = "verus produced no JSON: " + (res.get("raw_out", "") + res["raw_err"])[-800:]
        return ur
    vr = j.get("verification-results", {})
    diags = [d for d in res["diags"] if d.get("level") == "error"]
    try:
        mods = j["times-ms"]["smt"]["smt-run-module-times"]
        ur.smt_ms = j["times-ms"]["smt"]["total"]
    except Exception:
        mods = []
    fb = {}
    for m in mods:
        for f in m.get("function-breakdown", []):
            nm = f["function"].split("::", 1)[1] if "::" in f["function"] else f["function"]
            fb.setdefault(nm, []).append(f)
            ur.functions.append({"function": nm, "mode": f.get("mode:"), "smt_us": f.get("time-micros"), "rlimit": f.get("rlimit"), "success": f.get("success")})
    # non-verification errors => undecided
    hard = []
    for d in diags:
        msg = d["message"]
        if msg.startswith("aborting due to"):
            continue
        if any(msg.startswith(v) or v in msg for v in VERIFICATION_FAILURES):
            continue
        if any(r in msg for r in RESOURCE_FAILURES):
            continue
        hard.append(msg + " @ " + "; ".join(f"line {sp['line_start']}" for sp in d["spans"][:2]) + " :: " + d.get("rendered", "")[:600])
    if vr.get("encountered-vir-error") or hard or (not vr and not mods):
        ur.status = "undecided"
        ur.reason = "verus rejected the assembled file (unsupported construct / type error), not a verification failure: " + "; ".join(hard)[:2500] + res["raw_err"][-300:]
        return ur
    # map failures to obligations
    failed_obs: Dict[str, dict] = {}
    rlimit_fns = set()
    for d in diags:
        msg = d["message"]
        if msg.startswith("aborting due to"):
            continue
        prim = [s for s in d["spans"] if s.get("is_primary")] or d["spans"]
        lines_all = [s["line_start"] for s in d["spans"]]
        if not prim:
            continue
        pl = prim[0]["line_start"]
        fn = None
        for name, (a, b) in ranges.items():
            if any(a <= ln <= b for ln in lines_all):
                # prefer the function containing a non-primary span ("at the end of the function body")
                fn = name
                if a <= pl <= b:
                    break
        if any(r in msg for r in RESOURCE_FAILURES):
            rlimit_fns.add(fn or "?")
            continue
        ob = None
        for s in prim + [x for x in d["spans"] if not x.get("is_primary")]:
            for ln in range(s["line_start"], s["line_end"] + 1):
                if ln in lab_of_line:
                    ob = lab_of_line[ln]
                    break
            if ob:
                break
        if ob is None:
            ob = f"{fn}#safety" if fn else f"?#line{pl}"
        src_line = text.splitlines()[pl - 1].strip() if 0 < pl <= len(text.splitlines()) else ""
        failed_obs.setdefault(ob, {"obligation": ob, "function": fn, "message": msg, "line": pl, "text": src_line, "rendered": d.get("rendered", "")[:3000]})
    # functions Verus says failed but for which we saw no diagnostic
    for nm, lst in fb.items():
        if any(not f.get("success") for f in lst):
            base = nm.split("::")[-1]
            match = [k for k in ranges if k.split("~")[0].split("::")[-1] == base]
            if not any(fo["function"] in match for fo in failed_obs.values()) and not any(x in rlimit_fns for x in match):
                failed_obs[f"{nm}#safety"] = {"obligation": f"{nm}#safety", "function": nm, "message": "function reported unverified by Verus (no diagnostic captured)", "line": 0, "text": "", "rendered": ""}
    ur.failed = list(failed_obs.values())
    fobs = set(failed_obs)
    # if a function failed on label X, its other obligations are still "discharged" only
    # if Verus reported them so; Verus reports up to --multiple-errors failures per function,
    # so we count the non-failed clauses of a failed function as discharged only when fewer
    # than that many errors were reported for it.
    ur.discharged = [o for o in obs if o not in fobs and o.split("#")[0] not in rlimit_fns]
    if rlimit_fns:
        ur.status = "undecided"
        ur.reason = "rlimit exceeded in: " + ", ".join(sorted(rlimit_fns))
    return ur


def frame_checks(unit) -> None:
    """`[[frame_check]]` (unit.toml): an invariant proved of ONE mutator (e.g. HttpRouter::insert keeps wf_node) is
    an invariant of the data structure only if nothing else can write to it.  The check is syntactic: the methods of
    `impl` in `file` that take `&mut self` must be exactly `mut_methods`, and the field `private_field` of `struct`
    must not be `pub`.  A change there makes the meta-argument unsupported: UNDECIDED, not a violation."""
    for fc in unit.cfg.get("frame_check", []):
        src = R.Source(os.path.join(REPO, fc["file"]))
        it = src.find(fc["impl"])
        muts = []
        for c in src.children(it):
            if c.kind != "fn" or c.is_test:
                continue
            sig = src.text[c.start:src.ct[c.body_open].start] if c.body_open is not None else src.text_of(c)
            if re.search(r"&\s*(?:'\w+\s+)?mut\s+self", sig):
                muts.append(c.name)
        if sorted(muts) != sorted(fc["mut_methods"]):
            raise ExtractError(f"frame check: `&mut self` methods of `{fc['impl']}` are {sorted(muts)}, expected {sorted(fc['mut_methods'])}: "
                               "the representation invariant is proved for the expected mutators only")
        if "struct" in fc:
            st = src.find(fc["struct"])
            body = src.text_of(st)
            if re.search(r"\bpub(\s*\([^)]*\))?\s+" + re.escape(fc["private_field"]) + r"\s*:", body):
                raise ExtractError(f"frame check: field `{fc['private_field']}` of `{fc['struct']}` is no longer private")


def check_unit(name: str, variant: Optional[str] = None, rlimit: Optional[float] = None, relock: bool = False, do_vacuity: bool = True) -> UnitResult:
    t0 = time.time()
    try:
        unit = Unit(name)
    except Exception as e:  # config error is my bug, not /repo's
        return UnitResult(name, variant, "undecided", reason=f"unit config error: {e}")
    wdir = os.path.join(WORK, "vx", name + (("." + variant) if variant else ""))
    os.makedirs(wdir, exist_ok=True)
    rl = rlimit or unit.cfg.get("rlimit", 30)
    try:
        text = unit.assemble(variant)
        frame_checks(unit)
    except ExtractError as e:
        ur = UnitResult(name, variant, "undecided", reason=f"extraction: {e}")
        return ur
    modname = re.sub(r"[^A-Za-z0-9_]", "_", name.lower())
    path = os.path.join(wdir, modname + ".rs")
    open(path, "w", encoding="utf-8").write(text)
    res = run_verus(path, rl)
    try:
        ur = classify(unit, text, res)
    except ExtractError as e:
        return UnitResult(name, variant, "undecided", reason=f"extraction: {e}")
    ur.variant = variant
    ur.path = path
    ur.drop_report = unit.report.entries
    ur.spans = unit.spans
    ur.trusted = scan_trusted(text)
    # sentinels (hand-written, in spec.rs): each must FAIL
    sent = [o for o in ur.obligations if o.split("#")[0].split("::")[-1].startswith("sentinel_")]
    sent_fns = sorted({o.split("#")[0] for o in sent})
    failed_fns = {f["function"] for f in ur.failed}
    ur.sentinels = {s: (s in failed_fns) for s in sent_fns}
    ur.failed = [f for f in ur.failed if f["function"] not in sent_fns]
    ur.obligations = [o for o in ur.obligations if o.split("#")[0] not in sent_fns]
    ur.discharged = [o for o in ur.discharged if o.split("#")[0] not in sent_fns]
    if ur.status == "ok" and not all(ur.sentinels.values()):
        ur.status = "undecided"
        ur.reason = "vacuity: sentinel(s) that must fail were verified: " + ", ".join(s for s, v in ur.sentinels.items() if not v)
    # vocabulary guard
    vocab_path = os.path.join(unit.dir, "vocabulary.lock")
    vocab_now = callee_vocabulary(text)
    if relock and not variant:
        with open(vocab_path, "w") as f:
            f.write("\n".join(sorted(k + " " + n for k, n in vocab_now)) + "\n")
    if os.path.exists(vocab_path) and ur.failed:
        locked = {tuple(l.split()) for l in open(vocab_path) if l.strip()}
        downgraded = []
        for ch in unit.chunks:
            if ch.origin != "repo":
                continue
            # functions with a contract of their own: vstd's (concrete types) and the unit's `assume_specification`s
            precise = vstd_precise_names() | set(re.findall(r"assume_specification.*?::\s*([A-Za-z_][A-Za-z0-9_]*)\s*\]\s*\(", text))
            # stand-ins declared in the unit's (trusted) prelude WITH an `ensures` clause carry a contract by construction
            for pch in unit.chunks:
                if pch.origin == "prelude":
                    for part in re.split(r"\bfn\s+", pch.text)[1:]:
                        mm = re.match(r"([A-Za-z_][A-Za-z0-9_]*)", part)
                        if mm and "ensures" in part.split("{", 1)[0]:
                            precise.add(mm.group(1))
            # `matches!(e, pat)` is sugar for a `match`: nothing about it is left to a library contract
            new = sorted(x for x in (callee_vocabulary(ch.text) - locked) if x[1] not in precise and x != ("!", "matches"))
            if not new:
                continue
            a, b = ch.out_lines
            hit = [f for f in ur.failed if a <= f.get("line", 0) <= b or f.get("function", "").split("::")[-1] in ch.fns]
            if hit:
                downgraded += hit
                ur.reason += (f"[{ch.label}] now calls {[k + ':' + n for k, n in new][:6]}, which its contract was never proved against "
                              f"(their library contracts may be too weak to decide): {len(hit)} failed obligation(s) there are undecided, not violations. ")
        if downgraded:
            ur.failed = [f for f in ur.failed if f not in downgraded]
            if not ur.failed:
                ur.status = "undecided"
    # lock file
    lock_path = os.path.join(unit.dir, "obligations.lock" + (("." + variant) if variant else ""))
    if relock:
        with open(lock_path, "w") as f:
            f.write("\n".join(sorted(ur.obligations)) + "\n")
    if ur.status != "undecided":
        if not os.path.exists(lock_path):
            ur.status = "undecided"
            ur.reason = f"no lock file {lock_path}"
        else:
            lock = [l.strip() for l in open(lock_path) if l.strip()]
            if sorted(lock) != sorted(ur.obligations):
                missing = sorted(set(lock) - set(ur.obligations))
                extra = sorted(set(ur.obligations) - set(lock))
                # obligations of a loop that no longer exists (splice_fn records them) may be missing -- but only a FAILED
                # verdict survives that: "everything verified" with fewer obligations than locked stays undecided
                gone = set()
                for mm in re.finditer(r"// DROPPED-LOOP (\S+) #\d+: (\S*)", text):
                    gone |= {f"{mm.group(1)}#{lab}" for lab in mm.group(2).split(",") if lab}
                if ur.failed and ur.status != "undecided" and not extra and missing and set(missing) <= gone:
                    ur.reason += f"(a loop of the function is gone; its {len(missing)} invariant obligation(s) are not counted) "
                else:
                    ur.status = "undecided"
                    ur.reason = f"obligation set differs from lock: missing={missing[:5]} extra={extra[:5]}"
    if ur.status == "ok" and ur.failed:
        ur.status = "failed"
    # vacuity run: every spliced assert(false) must fail
    if do_vacuity and ur.status == "ok":
        vtext = unit.assemble(variant, vacuity=True)
        vpath = os.path.join(wdir, modname + "_vacuity.rs")
        open(vpath, "w", encoding="utf-8").write(vtext)
        vres = run_verus(vpath, rl)
        vlabs = {ln: lab for ln, lab in labels_in(vtext).items() if lab.startswith("vacuity")}
        hit = set()
        for d in vres["diags"]:
            if d.get("level") != "error":
                continue
            for s in d["spans"]:
                for ln in range(s["line_start"], s["line_end"] + 1):
                    if ln in vlabs:
                        hit.add(vlabs[ln])
        ur.vacuity = {"asserts": len(vlabs), "failed_as_required": len(hit), "wall_s": vres["wall_s"]}
        ur.wall_s += vres["wall_s"]
        if len(vlabs) == 0 or len(hit) != len(vlabs):
            miss = sorted(set(vlabs.values()) - hit)
            # find line text for the missing ones
            ur.status = "undecided"
            ur.reason = f"vacuity: {len(vlabs) - len(hit)} of {len(vlabs)} `assert(false)` probes did not fail ({miss[:4]}); contradictory precondition/invariant/prelude or probe not reported"
    ur.wall_s = time.time() - t0
    return ur


def main(argv):
    import argparse
    ap = argparse.ArgumentParser()
    ap.add_argument("unit")
    ap.add_argument("--variant")
    ap.add_argument("--relock", action="store_true")
    ap.add_argument("--rlimit", type=float)
    ap.add_argument("--no-vacuity", action="store_true")
    ap.add_argument("--emit", action="store_true", help="only print the assembled file")
    a = ap.parse_args(argv)
    if a.emit:
        u = Unit(a.unit)
        print(u.assemble(a.variant))
        print(json.dumps(u.report.entries, indent=1), file=sys.stderr)
        return 0
    ur = check_unit(a.unit, a.variant, a.rlimit, a.relock, not a.no_vacuity)
    if a.relock and not a.variant:
        # the variants' lock files go stale together with the main one
        import glob as _g
        for lf in _g.glob(os.path.join(VERIF, "contracts", a.unit, "obligations.lock.*")):
            check_unit(a.unit, lf.rsplit(".", 1)[1], a.rlimit, True, False)
    d = dict(ur.__dict__)
    for f in d["failed"]:
        print(f["rendered"], file=sys.stderr)
    d["failed"] = [{k: v for k, v in f.items() if k != "rendered"} for f in d["failed"]]
    print(json.dumps(d, indent=1))
    return {"ok": 0, "failed": 1, "undecided": 2}[ur.status]


if __name__ == "__main__":
    sys.exit(main(sys.argv[1:]))
