//@ append dropshot/src/error_status_code.rs
// K2 -- the two error-status refinement types: only 400..=599 (resp. 400..=499)
// can ever be represented.  Every constructor of the private tuple field is under
// contract here: from_status, from_u16, as_client_error, From<Client> for Error,
// TryFrom<Error> for Client, and every associated constant.
// All harnesses are loop-free over the full u16 domain => complete proofs.
#[cfg(kani)]
mod verif_k2 {
    use super::*;

    //@ harness k0_warm property=C13 class=complete :: http::StatusCode::from_u16(c) is Ok <=> 100 <= c <= 999 (dependency fact the other contracts rest on), all u16
    #[kani::proof]
    fn k0_warm() {
        let c: u16 = kani::any();
        let r = http::StatusCode::from_u16(c);
        kani::cover!(r.is_ok());
        kani::cover!(r.is_err());
        match r {
            Ok(s) => assert!(c >= 100 && c <= 999 && s.as_u16() == c),
            Err(_) => assert!(c < 100 || c > 999),
        }
    }

    //@ harness k2_error_from_u16 property=C13 class=complete :: ErrorStatusCode::from_u16(c) is Ok <=> 400 <= c <= 599; value round-trips through as_u16/as_status; is_client_error/is_server_error partition the range; all u16
    #[kani::proof]
    fn k2_error_from_u16() {
        let c: u16 = kani::any();
        let r = ErrorStatusCode::from_u16(c);
        kani::cover!(r.is_ok());
        kani::cover!(r.is_err());
        match r {
            Ok(s) => {
                assert!(c >= 400 && c <= 599);
                assert!(s.as_u16() == c);
                assert!(s.as_status().as_u16() == c);
                assert!(s.is_client_error() == (c <= 499));
                assert!(s.is_server_error() == (c >= 500));
                let back: u16 = s.into();
                assert!(back == c);
            }
            Err(_) => assert!(c < 400 || c > 599),
        }
    }

    //@ harness k2_client_from_u16 property=C13 class=complete :: ClientErrorStatusCode::from_u16(c) is Ok <=> 400 <= c <= 499; value round-trips; all u16
    #[kani::proof]
    fn k2_client_from_u16() {
        let c: u16 = kani::any();
        let r = ClientErrorStatusCode::from_u16(c);
        kani::cover!(r.is_ok());
        kani::cover!(r.is_err());
        match r {
            Ok(s) => {
                assert!(c >= 400 && c <= 499);
                assert!(s.as_u16() == c);
                assert!(s.as_status().as_u16() == c);
            }
            Err(_) => assert!(c < 400 || c > 499),
        }
    }

    //@ harness k2_error_from_status property=C13 class=complete :: ErrorStatusCode::from_status(s) / TryFrom<StatusCode> is Ok <=> s in 400..=599, for every http::StatusCode; the code is preserved
    #[kani::proof]
    fn k2_error_from_status() {
        let c: u16 = kani::any();
        if let Ok(st) = http::StatusCode::from_u16(c) {
            let r = ErrorStatusCode::from_status(st);
            match r {
                Ok(s) => assert!(c >= 400 && c <= 599 && s.as_u16() == c),
                Err(_) => assert!(c < 400 || c > 599),
            }
            let r2: Result<ErrorStatusCode, NotAnError> = ErrorStatusCode::try_from(st);
            match r2 {
                Ok(s) => assert!(c >= 400 && c <= 599 && s.as_u16() == c),
                Err(_) => assert!(c < 400 || c > 599),
            }
        }
    }

    //@ harness k2_client_from_status property=C13 class=complete :: ClientErrorStatusCode::from_status(s) / TryFrom<StatusCode> is Ok <=> s in 400..=499, for every http::StatusCode; the code is preserved
    #[kani::proof]
    fn k2_client_from_status() {
        let c: u16 = kani::any();
        if let Ok(st) = http::StatusCode::from_u16(c) {
            let r = ClientErrorStatusCode::from_status(st);
            match r {
                Ok(s) => assert!(c >= 400 && c <= 499 && s.as_u16() == c),
                Err(_) => assert!(c < 400 || c > 499),
            }
            let r2: Result<ClientErrorStatusCode, NotAClientError> = ClientErrorStatusCode::try_from(st);
            match r2 {
                Ok(s) => assert!(c >= 400 && c <= 499 && s.as_u16() == c),
                Err(_) => assert!(c < 400 || c > 499),
            }
        }
    }

    //@ harness k2_refine_and_widen property=C13 class=complete :: as_client_error / TryFrom<ErrorStatusCode> succeed exactly on 4xx and keep the code; From<ClientErrorStatusCode> for ErrorStatusCode keeps the code; for every representable error status
    #[kani::proof]
    fn k2_refine_and_widen() {
        let c: u16 = kani::any();
        if let Ok(e) = ErrorStatusCode::from_u16(c) {
            match e.as_client_error() {
                Ok(cl) => assert!(c <= 499 && cl.as_u16() == c),
                Err(_) => assert!(c >= 500),
            }
            let t: Result<ClientErrorStatusCode, NotAClientError> = ClientErrorStatusCode::try_from(e);
            match t {
                Ok(cl) => assert!(c <= 499 && cl.as_u16() == c),
                Err(_) => assert!(c >= 500),
            }
            let t2: Result<ClientErrorStatusCode, NotAClientError> = ClientErrorStatusCode::try_from(&e);
            match t2 {
                Ok(cl) => assert!(c <= 499 && cl.as_u16() == c),
                Err(_) => assert!(c >= 500),
            }
        }
        if let Ok(cl) = ClientErrorStatusCode::from_u16(c) {
            let e: ErrorStatusCode = cl.into();
            assert!(e.as_u16() == c);
            let e2: ErrorStatusCode = (&cl).into();
            assert!(e2.as_u16() == c);
            assert!(e == cl && cl == e);
        }
    }

    //@ harness k2_constants property=C13 class=complete :: every associated constant of both types (enumerated from the macro invocations in /repo on every run) lies in its range and equals the http constant of the same name
    #[kani::proof]
    fn k2_constants() {
        //@ foreach dropshot/src/error_status_code.rs :: impl ErrorStatusCode :: error_status_code_constants :: assert!(ErrorStatusCode::{NAME}.as_u16() >= 400 && ErrorStatusCode::{NAME}.as_u16() <= 599 && ErrorStatusCode::{NAME}.as_status() == http::StatusCode::{NAME});
        //@ foreach dropshot/src/error_status_code.rs :: impl ClientErrorStatusCode :: error_status_code_constants :: assert!(ClientErrorStatusCode::{NAME}.as_u16() >= 400 && ClientErrorStatusCode::{NAME}.as_u16() <= 499 && ClientErrorStatusCode::{NAME}.as_status() == http::StatusCode::{NAME});
    }

    //@ harness k2_sentinel_must_fail property=C13 class=complete expect=fail :: must-fail sentinel: claims 600 is representable; Kani has to refute it
    #[kani::proof]
    fn k2_sentinel_must_fail() {
        let c: u16 = kani::any();
        if let Ok(s) = ErrorStatusCode::from_u16(c) {
            assert!(s.as_u16() < 599);
        }
    }
}
