//@ append dropshot/src/type_util.rs
// K11 -- type_util.rs decides C02's rule "a non-scalar path or query parameter" (the Verus unit V6 treats
// type_is_scalar / type_is_string_enum as uninterpreted predicates of the schema).  For a schema that states its type
// directly (no $ref, no subschemas) the real type_is_scalar accepts exactly boolean / number / string / integer
// without array or object validation.
#[cfg(kani)]
mod verif_k11 {
    use super::*;
    fn fmt_stub(_args: std::fmt::Arguments<'_>) -> String { String::new() }
    fn any_instance_type() -> (u8, InstanceType) {
        let k: u8 = kani::any();
        kani::assume(k < 7);
        let t = match k {
            0 => InstanceType::Null,
            1 => InstanceType::Boolean,
            2 => InstanceType::Object,
            3 => InstanceType::Array,
            4 => InstanceType::Number,
            5 => InstanceType::String,
            _ => InstanceType::Integer,
        };
        (k, t)
    }

    //@ harness k11_scalar_iff_plain_scalar_type property=C02 class=complete :: the real type_is_scalar on a schema that states its instance type directly: Ok iff the type is boolean, number, string or integer and the schema carries neither array nor object validation (all seven instance types x presence of array / object validation)
    #[kani::proof]
    #[kani::unwind(4)]
    #[kani::stub(std::fmt::format, fmt_stub)]
    fn k11_scalar_iff_plain_scalar_type() {
        let (k, t) = any_instance_type();
        let (has_array, has_object): (bool, bool) = kani::any();
        let obj = SchemaObject {
            instance_type: Some(SingleOrVec::Single(Box::new(t))),
            array: if has_array { Some(Box::new(Default::default())) } else { None },
            object: if has_object { Some(Box::new(Default::default())) } else { None },
            ..Default::default()
        };
        let schema = Schema::Object(obj);
        let deps: IndexMap<String, Schema> = IndexMap::new();
        let r = type_is_scalar("op", "p", &schema, &deps);
        let scalar_type = k == 1 || k == 4 || k == 5 || k == 6;
        assert!(r.is_ok() == (scalar_type && !has_array && !has_object));
        std::mem::forget(r);
        std::mem::forget(schema);
        std::mem::forget(deps);
    }
}
