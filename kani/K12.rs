//@ append dropshot/src/api_description.rs
// K12 -- ApiEndpointBodyContentType::{from_mime_type, mime_type}: the table that unit V4 treats as the uninterpreted
// function kind_of_mime (a `match` on constant patterns, outside Verus's pattern language).  C10: "a content type other
// than the endpoint's" is refused -- which media type names which kind is decided here.
#[cfg(kani)]
mod verif_k12 {
    use super::*;
    fn fmt_stub(_args: std::fmt::Arguments<'_>) -> String { String::new() }

    //@ harness k12_mime_table_round_trip property=C10 class=complete :: each of the four body kinds names a media type that from_mime_type maps back to the same kind (and application/json is Json, application/x-www-form-urlencoded is UrlEncoded)
    #[kani::proof]
    #[kani::unwind(40)]
    #[kani::stub(std::fmt::format, fmt_stub)]
    fn k12_mime_table_round_trip() {
        let k: u8 = kani::any();
        kani::assume(k < 4);
        let kind = match k {
            0 => ApiEndpointBodyContentType::Bytes,
            1 => ApiEndpointBodyContentType::Json,
            2 => ApiEndpointBodyContentType::UrlEncoded,
            _ => ApiEndpointBodyContentType::MultipartFormData,
        };
        let back = ApiEndpointBodyContentType::from_mime_type(kind.mime_type());
        match (back, k) {
            (Ok(ApiEndpointBodyContentType::Bytes), 0) => (),
            (Ok(ApiEndpointBodyContentType::Json), 1) => (),
            (Ok(ApiEndpointBodyContentType::UrlEncoded), 2) => (),
            (Ok(ApiEndpointBodyContentType::MultipartFormData), 3) => (),
            _ => assert!(false),
        }
        match ApiEndpointBodyContentType::from_mime_type("application/json") { Ok(ApiEndpointBodyContentType::Json) => (), _ => assert!(false) }
        match ApiEndpointBodyContentType::from_mime_type("application/x-www-form-urlencoded") { Ok(ApiEndpointBodyContentType::UrlEncoded) => (), _ => assert!(false) }
    }

    //@ harness k12_unknown_media_type_is_refused property=C10 class=bounded :: from_mime_type refuses every 4-byte ASCII string (none of the four supported media types is that short)
    #[kani::proof]
    #[kani::unwind(40)]
    #[kani::stub(std::fmt::format, fmt_stub)]
    fn k12_unknown_media_type_is_refused() {
        let b: [u8; 4] = kani::any();
        kani::assume(b[0] < 128 && b[1] < 128 && b[2] < 128 && b[3] < 128);
        let s = unsafe { String::from_utf8_unchecked(vec![b[0], b[1], b[2], b[3]]) };
        let r = ApiEndpointBodyContentType::from_mime_type(&s);
        assert!(r.is_err());
        std::mem::forget(r);
        std::mem::forget(s);
    }
}
