//@ append dropshot/src/schema_util.rs
// K5 -- JSON-Schema -> OpenAPI leaf converters (C08, partial): "no constraint is dropped or altered".
// Each harness builds the schemars validation struct with SYMBOLIC scalar keywords and checks that every
// keyword arrives in the openapiv3 value with the same meaning.  Scalar keywords: complete over their
// domains; collection-valued keywords: bounded (0 or 1 element), and said so per harness.
#[cfg(kani)]
mod verif_k5 {
    use super::*;
    use schemars::schema::{NumberValidation, StringValidation};

    fn opt_f(present: bool, v: i32) -> Option<f64> { if present { Some(v as f64) } else { None } }
    fn opt_i(present: bool, v: i32) -> Option<i64> { if present { Some(v as i64) } else { None } }

    //@ harness k5_integer_bounds property=C08 class=complete :: j2oas_integer keeps minimum/maximum (inclusive or exclusive, each side independently) and multipleOf with the same value and the same strictness; precondition P2: bounds integral and within i32 (what schemars emits for integer types); all such bounds
    #[kani::proof]
    #[kani::unwind(3)]
    fn k5_integer_bounds() {
        let (hmin, hxmin, hmax, hxmax, hmul): (bool, bool, bool, bool, bool) = kani::any();
        let (mn, xmn, mx, xmx, mul): (i32, i32, i32, i32, i32) = kani::any();
        // a schema with BOTH minimum and exclusiveMinimum (or both maxima) is refused, see k5_integer_refuses_both
        kani::assume(!(hmin && hxmin) && !(hmax && hxmax));
        let nv = NumberValidation {
            multiple_of: opt_f(hmul, mul),
            maximum: opt_f(hmax, mx),
            exclusive_maximum: opt_f(hxmax, xmx),
            minimum: opt_f(hmin, mn),
            exclusive_minimum: opt_f(hxmin, xmn),
        };
        let number = Some(Box::new(nv));
        let k = j2oas_integer(&None, &number, &None);
        match &k {
            openapiv3::SchemaKind::Type(openapiv3::Type::Integer(it)) => {
                assert!(it.minimum == if hmin { Some(mn as i64) } else if hxmin { Some(xmn as i64) } else { None });
                assert!(it.exclusive_minimum == hxmin);
                assert!(it.maximum == if hmax { Some(mx as i64) } else if hxmax { Some(xmx as i64) } else { None });
                assert!(it.exclusive_maximum == hxmax);
                assert!(it.multiple_of == opt_i(hmul, mul));
                assert!(it.enumeration.is_empty());
                assert!(matches!(it.format, openapiv3::VariantOrUnknownOrEmpty::Empty));
            }
            _ => assert!(false),
        }
        std::mem::forget(k);
        std::mem::forget(number);
    }

    //@ harness k5_integer_refuses_both property=C08 class=complete expect=fail :: a schema carrying both `minimum` and `exclusiveMinimum` is REFUSED (panic) rather than silently losing one of them: this harness must fail with that panic
    #[kani::proof]
    #[kani::unwind(3)]
    fn k5_integer_refuses_both() {
        let (mn, xmn): (i32, i32) = kani::any();
        let nv = NumberValidation { multiple_of: None, maximum: None, exclusive_maximum: None, minimum: Some(mn as f64), exclusive_minimum: Some(xmn as f64) };
        let number = Some(Box::new(nv));
        let k = j2oas_integer(&None, &number, &None);
        std::mem::forget(k);
        std::mem::forget(number);
    }

    //@ harness k5_number_bounds property=C08 class=complete :: j2oas_number keeps minimum/maximum (inclusive or exclusive) and multipleOf bit-for-bit; all f64 values incl. infinities and NaN payloads
    #[kani::proof]
    #[kani::unwind(3)]
    fn k5_number_bounds() {
        let (hmin, hxmin, hmax, hxmax, hmul): (bool, bool, bool, bool, bool) = kani::any();
        let (mn, xmn, mx, xmx, mul): (f64, f64, f64, f64, f64) = kani::any();
        kani::assume(!(hmin && hxmin) && !(hmax && hxmax));
        let o = |p: bool, v: f64| if p { Some(v) } else { None };
        let nv = NumberValidation { multiple_of: o(hmul, mul), maximum: o(hmax, mx), exclusive_maximum: o(hxmax, xmx), minimum: o(hmin, mn), exclusive_minimum: o(hxmin, xmn) };
        let number = Some(Box::new(nv));
        let k = j2oas_number(&None, &number, &None);
        let same = |a: Option<f64>, b: Option<f64>| match (a, b) { (None, None) => true, (Some(x), Some(y)) => x.to_bits() == y.to_bits(), _ => false };
        match &k {
            openapiv3::SchemaKind::Type(openapiv3::Type::Number(nt)) => {
                assert!(same(nt.minimum, if hmin { Some(mn) } else if hxmin { Some(xmn) } else { None }));
                assert!(nt.exclusive_minimum == hxmin);
                assert!(same(nt.maximum, if hmax { Some(mx) } else if hxmax { Some(xmx) } else { None }));
                assert!(nt.exclusive_maximum == hxmax);
                assert!(same(nt.multiple_of, o(hmul, mul)));
                assert!(nt.enumeration.is_empty());
            }
            _ => assert!(false),
        }
        std::mem::forget(k);
        std::mem::forget(number);
    }

    //@ harness k5_string_lengths property=C08 class=complete :: j2oas_string keeps minLength / maxLength (all u32 values, each optional) and the presence of `pattern`
    #[kani::proof]
    #[kani::unwind(3)]
    fn k5_string_lengths() {
        let (hmin, hmax, hpat): (bool, bool, bool) = kani::any();
        let (mn, mx): (u32, u32) = kani::any();
        let sv = StringValidation {
            max_length: if hmax { Some(mx) } else { None },
            min_length: if hmin { Some(mn) } else { None },
            pattern: if hpat { let mut p = String::new(); p.push('p'); Some(p) } else { None },
        };
        let string = Some(Box::new(sv));
        let k = j2oas_string(&None, &string, &None);
        match &k {
            openapiv3::SchemaKind::Type(openapiv3::Type::String(st)) => {
                assert!(st.min_length == if hmin { Some(mn as usize) } else { None });
                assert!(st.max_length == if hmax { Some(mx as usize) } else { None });
                match &st.pattern { Some(p) => assert!(hpat && p.len() == 1 && p.as_bytes()[0] == b'p'), None => assert!(!hpat) }
                assert!(st.enumeration.is_empty());
            }
            _ => assert!(false),
        }
        std::mem::forget(k);
        std::mem::forget(string);
    }

    fn no_schema(_name: Option<&String>, _schema: &schemars::schema::Schema) -> openapiv3::ReferenceOr<openapiv3::Schema> {
        // never reached in the harnesses below (no item / property schemas are present); the stub only keeps
        // CBMC from unfolding the mutual recursion j2oas_array -> j2oas_schema -> j2oas_schema_object -> ..
        kani::assume(false);
        loop {}
    }

    //@ harness k5_array_limits property=C08 class=complete :: j2oas_array keeps minItems / maxItems (all u32, each optional) and uniqueItems (absent == false); `items` absent stays absent (recursion into item schemas stubbed out: not exercised)
    #[kani::proof]
    #[kani::unwind(3)]
    #[kani::stub(j2oas_schema, no_schema)]
    fn k5_array_limits() {
        let (hmin, hmax, huniq, uniq): (bool, bool, bool, bool) = kani::any();
        let (mn, mx): (u32, u32) = kani::any();
        let av = schemars::schema::ArrayValidation {
            items: None,
            additional_items: None,
            max_items: if hmax { Some(mx) } else { None },
            min_items: if hmin { Some(mn) } else { None },
            unique_items: if huniq { Some(uniq) } else { None },
            contains: None,
        };
        let array = Some(Box::new(av));
        let k = j2oas_array(&array);
        match &k {
            openapiv3::SchemaKind::Type(openapiv3::Type::Array(at)) => {
                assert!(at.min_items == if hmin { Some(mn as usize) } else { None });
                assert!(at.max_items == if hmax { Some(mx as usize) } else { None });
                assert!(at.unique_items == (huniq && uniq));
                assert!(at.items.is_none());
            }
            _ => assert!(false),
        }
        std::mem::forget(k);
        std::mem::forget(array);
    }

    fn fmt_stub(_args: std::fmt::Arguments<'_>) -> String { String::new() }
    fn marker_schema(_name: Option<&String>, _schema: &schemars::schema::Schema) -> openapiv3::ReferenceOr<openapiv3::Schema> {
        // stands for "the conversion of one member schema" (the recursion is not unfolded here)
        openapiv3::ReferenceOr::Reference { reference: String::new() }
    }
    fn members(n: u8) -> Vec<schemars::schema::Schema> {
        let mut v = Vec::new();
        if n >= 1 { v.push(schemars::schema::Schema::Bool(true)); }
        if n >= 2 { v.push(schemars::schema::Schema::Bool(true)); }
        v
    }

    //@ harness k5_subschemas_kind_and_arity property=C08 class=bounded :: j2oas_subschemas keeps the combinator (allOf / anyOf / oneOf / not) and the number of member schemas (0, 1 or 2 members; the conversion of each member is stubbed)
    #[kani::proof]
    #[kani::unwind(4)]
    #[kani::stub(j2oas_schema, marker_schema)]
    fn k5_subschemas_kind_and_arity() {
        let which: u8 = kani::any();
        let n: u8 = kani::any();
        kani::assume(which < 4 && n <= 2);
        let mut sv = schemars::schema::SubschemaValidation::default();
        match which {
            0 => sv.all_of = Some(members(n)),
            1 => sv.any_of = Some(members(n)),
            2 => sv.one_of = Some(members(n)),
            _ => sv.not = Some(Box::new(schemars::schema::Schema::Bool(true))),
        }
        let k = j2oas_subschemas(&sv);
        match (&k, which) {
            (openapiv3::SchemaKind::AllOf { all_of }, 0) => assert!(all_of.len() == n as usize),
            (openapiv3::SchemaKind::AnyOf { any_of }, 1) => assert!(any_of.len() == n as usize),
            (openapiv3::SchemaKind::OneOf { one_of }, 2) => assert!(one_of.len() == n as usize),
            (openapiv3::SchemaKind::Not { .. }, 3) => (),
            _ => assert!(false),
        }
        std::mem::forget(k);
        std::mem::forget(sv);
    }

    //@ harness k5_formats_kept property=C08 class=complete :: the `format` annotation: j2oas_integer maps int32 / int64, j2oas_number maps float / double, j2oas_string maps date / date-time / password / byte / binary to the like-named OpenAPI format, an absent format stays absent and any other text is kept verbatim as an unknown format (fixed strings, every table entry)
    #[kani::proof]
    #[kani::unwind(12)]
    #[kani::stub(std::fmt::format, fmt_stub)]
    fn k5_formats_kept() {
        use openapiv3::{IntegerFormat, NumberFormat, StringFormat, VariantOrUnknownOrEmpty as V};
        let which: u8 = kani::any();
        kani::assume(which < 12);
        let name: Option<&str> = match which {
            0 => None, 1 => Some("int32"), 2 => Some("int64"), 3 => Some("float"), 4 => Some("double"), 5 => Some("date"),
            6 => Some("date-time"), 7 => Some("password"), 8 => Some("byte"), 9 => Some("binary"), 10 => Some("zz"), _ => Some("uuid"),
        };
        let fmt: Option<String> = name.map(|s| String::from(s));
        let none_e: Option<Vec<serde_json::Value>> = None;
        if let openapiv3::SchemaKind::Type(openapiv3::Type::Integer(t)) = j2oas_integer(&fmt, &None, &none_e) {
            match (&t.format, which) {
                (V::Empty, 0) => (),
                (V::Item(IntegerFormat::Int32), 1) => (),
                (V::Item(IntegerFormat::Int64), 2) => (),
                (V::Unknown(o), w) if w >= 3 => assert!(o.as_str() == name.unwrap()),
                _ => assert!(false),
            }
            std::mem::forget(t);
        } else { assert!(false); }
        if let openapiv3::SchemaKind::Type(openapiv3::Type::Number(t)) = j2oas_number(&fmt, &None, &none_e) {
            match (&t.format, which) {
                (V::Empty, 0) => (),
                (V::Item(NumberFormat::Float), 3) => (),
                (V::Item(NumberFormat::Double), 4) => (),
                (V::Unknown(o), w) if w != 0 && w != 3 && w != 4 => assert!(o.as_str() == name.unwrap()),
                _ => assert!(false),
            }
            std::mem::forget(t);
        } else { assert!(false); }
        if let openapiv3::SchemaKind::Type(openapiv3::Type::String(t)) = j2oas_string(&fmt, &None, &none_e) {
            match (&t.format, which) {
                (V::Empty, 0) => (),
                (V::Item(StringFormat::Date), 5) => (),
                (V::Item(StringFormat::DateTime), 6) => (),
                (V::Item(StringFormat::Password), 7) => (),
                (V::Item(StringFormat::Byte), 8) => (),
                (V::Item(StringFormat::Binary), 9) => (),
                (V::Unknown(o), w) if w != 0 && !(5..=9).contains(&w) => assert!(o.as_str() == name.unwrap()),
                _ => assert!(false),
            }
            std::mem::forget(t);
        } else { assert!(false); }
        std::mem::forget(fmt);
    }
}
