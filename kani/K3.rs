//@ append dropshot/src/error.rs
// K3 -- the public constructors of HttpError: each RETURNS (no reachable panic)
// for every representable status, carries exactly the status named, and puts its
// string arguments in the documented fields (internal text only in
// `internal_message`).  Status domain: complete (all u16 through from_u16).
// Strings are one-byte markers: which *field* a value lands in does not depend on
// its content.
#[cfg(kani)]
mod verif_k3 {
    use super::*;

    fn marker(b: u8) -> String {
        let mut s = String::new();
        s.push(b as char);
        s
    }
    fn is_marker(s: &String, b: u8) -> bool {
        s.len() == 1 && s.as_bytes()[0] == b
    }

    //@ harness k3_for_client_error property=C13 class=complete :: for_client_error(code, sc, msg): status == sc for every ClientErrorStatusCode (all u16 through from_u16), msg is both messages, error code passed through, no headers
    #[kani::proof]
    #[kani::unwind(4)]
    fn k3_for_client_error() {
        let c: u16 = kani::any();
        let with_code: bool = kani::any();
        if let Ok(sc) = ClientErrorStatusCode::from_u16(c) {
            let code = if with_code { Some(marker(b'C')) } else { None };
            let e = HttpError::for_client_error(code, sc, marker(b'M'));
            assert!(e.status_code.as_u16() == c);
            assert!(c >= 400 && c <= 499);
            assert!(is_marker(&e.external_message, b'M'));
            assert!(is_marker(&e.internal_message, b'M'));
            match &e.error_code {
                Some(s) => assert!(with_code && is_marker(s, b'C')),
                None => assert!(!with_code),
            }
            assert!(e.headers.is_none());
            std::mem::forget(e);
        }
    }

    //@ harness k3_for_bad_request property=C13 class=complete :: for_bad_request(code, msg): status 400, msg is both messages
    #[kani::proof]
    #[kani::unwind(4)]
    fn k3_for_bad_request() {
        let e = HttpError::for_bad_request(None, marker(b'M'));
        assert!(e.status_code.as_u16() == 400);
        assert!(is_marker(&e.external_message, b'M'));
        assert!(is_marker(&e.internal_message, b'M'));
        assert!(e.error_code.is_none());
        assert!(e.headers.is_none());
        std::mem::forget(e);
    }

    //@ harness k3_for_client_error_with_status property=C13 class=complete :: for_client_error_with_status(code, sc) returns (no panic) for EVERY ClientErrorStatusCode 400..=499 with status == sc and a non-empty message used for both fields
    #[kani::proof]
    #[kani::unwind(4)]
    fn k3_for_client_error_with_status() {
        let c: u16 = kani::any();
        if let Ok(sc) = ClientErrorStatusCode::from_u16(c) {
            let e = HttpError::for_client_error_with_status(None, sc);
            assert!(e.status_code.as_u16() == c);
            assert!(e.external_message.len() > 0);
            assert!(e.external_message.len() == e.internal_message.len());
            assert!(e.headers.is_none());
            std::mem::forget(e);
        }
    }

    //@ harness k3_for_internal_error property=C13 class=complete :: for_internal_error(internal): status 500, the argument lands ONLY in internal_message, external is the 21-byte canonical reason
    #[kani::proof]
    #[kani::unwind(4)]
    fn k3_for_internal_error() {
        let e = HttpError::for_internal_error(marker(b'I'));
        assert!(e.status_code.as_u16() == 500);
        assert!(is_marker(&e.internal_message, b'I'));
        assert!(!is_marker(&e.external_message, b'I'));
        assert!(e.external_message.len() == 21); // "Internal Server Error"
        assert!(e.headers.is_none());
        std::mem::forget(e);
    }

    //@ harness k3_for_unavail property=C13 class=complete :: for_unavail(code, internal): status 503, the argument lands ONLY in internal_message, external is the 19-byte canonical reason
    #[kani::proof]
    #[kani::unwind(4)]
    fn k3_for_unavail() {
        let e = HttpError::for_unavail(None, marker(b'I'));
        assert!(e.status_code.as_u16() == 503);
        assert!(is_marker(&e.internal_message, b'I'));
        assert!(!is_marker(&e.external_message, b'I'));
        assert!(e.external_message.len() == 19); // "Service Unavailable"
        assert!(e.error_code.is_none());
        assert!(e.headers.is_none());
        std::mem::forget(e);
    }

    //@ harness k3_for_not_found property=C13 class=complete :: for_not_found(code, internal): status 404, the argument lands ONLY in internal_message, external is the 9-byte canonical reason
    #[kani::proof]
    #[kani::unwind(4)]
    fn k3_for_not_found() {
        let e = HttpError::for_not_found(None, marker(b'I'));
        assert!(e.status_code.as_u16() == 404);
        assert!(is_marker(&e.internal_message, b'I'));
        assert!(!is_marker(&e.external_message, b'I'));
        assert!(e.external_message.len() == 9); // "Not Found"
        assert!(e.error_code.is_none());
        assert!(e.headers.is_none());
        std::mem::forget(e);
    }
}

