//@ append dropshot/src/router.rs
// K15 -- PathSegment::from decides which path-template segments are literals, single-segment variables or trailing
// wildcards (units V6 and V14 treat it as the uninterpreted function seg_of).  C02 / C01: "two different kinds of
// segment (literal, variable, wildcard)", "a trailing wildcard variable".
#[cfg(kani)]
mod verif_k15 {
    use super::*;
    fn fmt_stub(_args: std::fmt::Arguments<'_>) -> String { String::new() }

    //@ harness k15_segment_kinds_three_bytes property=C02 class=bounded :: the real PathSegment::from on every 3-byte ASCII string that it accepts: without braces at either end a literal with the same text; `{x}` the single-segment variable `x` (any non-':' byte x)
    #[kani::proof]
    #[kani::unwind(8)]
    #[kani::stub(std::fmt::format, fmt_stub)]
    fn k15_segment_kinds_three_bytes() {
        let b: [u8; 3] = kani::any();
        kani::assume(b[0] < 128 && b[1] < 128 && b[2] < 128);
        let open = b[0] == b'{';
        let close = b[2] == b'}';
        // PathSegment::from asserts well-formedness (a panic at registration time): only well-formed inputs here
        kani::assume(open == close);
        kani::assume(!(open && b[1] == b':'));
        let s = unsafe { String::from_utf8_unchecked(vec![b[0], b[1], b[2]]) };
        let seg = PathSegment::from(s.as_str());
        match &seg {
            PathSegment::Literal(t) => { assert!(!open); let x = t.as_bytes(); assert!(x.len() == 3 && x[0] == b[0] && x[1] == b[1] && x[2] == b[2]); }
            PathSegment::VarnameSegment(v) => { assert!(open); let x = v.as_bytes(); assert!(x.len() == 1 && x[0] == b[1]); }
            PathSegment::VarnameWildcard(_) => assert!(false),
        }
        std::mem::forget(seg);
        std::mem::forget(s);
    }

    //@ harness k15_wildcard_segment property=C02 class=bounded :: `{x:.*}` (any name byte x) is the trailing-wildcard variable `x`
    #[kani::proof]
    #[kani::unwind(10)]
    #[kani::stub(std::fmt::format, fmt_stub)]
    fn k15_wildcard_segment() {
        let x: u8 = kani::any();
        kani::assume(x < 128 && x != b':' );
        let s = unsafe { String::from_utf8_unchecked(vec![b'{', x, b':', b'.', b'*', b'}']) };
        let seg = PathSegment::from(s.as_str());
        match &seg {
            PathSegment::VarnameWildcard(v) => { let t = v.as_bytes(); assert!(t.len() == 1 && t[0] == x); }
            _ => assert!(false),
        }
        std::mem::forget(seg);
        std::mem::forget(s);
    }
}
