//@ append dropshot/src/from_map.rs
// K10 -- from_map.rs is dropshot's OWN serde Deserializer for path variables and pagination parameters (the Verus
// units treat it as an uninterpreted decoder).  C10: "wrong type, out-of-range number ... the client receives a
// 400-level error".  These harnesses run the real, macro-generated `deserialize_u8` / `deserialize_i8` /
// `deserialize_bool` of MapDeserializer on EVERY string of a small length and compare the verdict with the plain
// grammar of the type's text.  Bounded (string length), labelled so.
#[cfg(kani)]
mod verif_k10 {
    use super::*;
    fn fmt_stub(_args: std::fmt::Arguments<'_>) -> String { String::new() }
    fn digit(b: u8) -> bool { b >= b'0' && b <= b'9' }

    fn two_byte_string() -> (u8, u8, String) {
        let b0: u8 = kani::any();
        let b1: u8 = kani::any();
        kani::assume(b0 < 128 && b1 < 128);
        let s = unsafe { String::from_utf8_unchecked(vec![b0, b1]) };
        (b0, b1, s)
    }

    //@ harness k10_u8_path_value_two_bytes property=C10 class=bounded :: the real deserialize_u8 of from_map's MapDeserializer accepts a 2-byte ASCII string iff it is two digits or '+' and a digit (so padded, signed-negative, hex or otherwise ill-typed text is refused), and then yields that number
    #[kani::proof]
    #[kani::unwind(6)]
    #[kani::stub(std::fmt::format, fmt_stub)]
    fn k10_u8_path_value_two_bytes() {
        let (b0, b1, s) = two_byte_string();
        let mut md: MapDeserializer<'_, String> = MapDeserializer::Value(s);
        let r = <u8 as Deserialize>::deserialize(&mut md);
        let well_typed = (digit(b0) && digit(b1)) || (b0 == b'+' && digit(b1));
        match r {
            Ok(v) => {
                assert!(well_typed);
                let expect = if b0 == b'+' { b1 - b'0' } else { (b0 - b'0') * 10 + (b1 - b'0') };
                assert!(v == expect);
            }
            Err(_) => assert!(!well_typed),
        }
        std::mem::forget(md);
    }

    //@ harness k10_i8_path_value_two_bytes property=C10 class=bounded :: likewise for deserialize_i8: two digits, or a sign and a digit
    #[kani::proof]
    #[kani::unwind(6)]
    #[kani::stub(std::fmt::format, fmt_stub)]
    fn k10_i8_path_value_two_bytes() {
        let (b0, b1, s) = two_byte_string();
        let mut md: MapDeserializer<'_, String> = MapDeserializer::Value(s);
        let r = <i8 as Deserialize>::deserialize(&mut md);
        let well_typed = (digit(b0) && digit(b1)) || ((b0 == b'+' || b0 == b'-') && digit(b1));
        match r {
            Ok(_) => assert!(well_typed),
            Err(_) => assert!(!well_typed),
        }
        std::mem::forget(md);
    }

    //@ harness k10_u8_path_value_three_bytes property=C10 class=bounded :: 3-byte ASCII strings: deserialize_u8 accepts exactly three digits with value <= 255 or '+' and two digits -- an out-of-range number (256..999) is refused
    #[kani::proof]
    #[kani::unwind(8)]
    #[kani::stub(std::fmt::format, fmt_stub)]
    fn k10_u8_path_value_three_bytes() {
        let b0: u8 = kani::any();
        let b1: u8 = kani::any();
        let b2: u8 = kani::any();
        kani::assume(b0 < 128 && b1 < 128 && b2 < 128);
        let s = unsafe { String::from_utf8_unchecked(vec![b0, b1, b2]) };
        let mut md: MapDeserializer<'_, String> = MapDeserializer::Value(s);
        let r = <u8 as Deserialize>::deserialize(&mut md);
        let three = digit(b0) && digit(b1) && digit(b2);
        let val: u32 = if three { (b0 - b'0') as u32 * 100 + (b1 - b'0') as u32 * 10 + (b2 - b'0') as u32 } else { 0 };
        let well_typed = (three && val <= 255) || (b0 == b'+' && digit(b1) && digit(b2));
        match r {
            Ok(v) => {
                assert!(well_typed);
                if three { assert!(v as u32 == val); }
            }
            Err(_) => assert!(!well_typed),
        }
        std::mem::forget(md);
    }

    //@ harness k10_bool_path_value_four_bytes property=C10 class=bounded :: 4-byte ASCII strings: deserialize_bool accepts exactly "true" (and yields true); every other 4-byte text -- "True", "yes ", " tru" ... -- is refused
    #[kani::proof]
    #[kani::unwind(8)]
    #[kani::stub(std::fmt::format, fmt_stub)]
    fn k10_bool_path_value_four_bytes() {
        let b: [u8; 4] = kani::any();
        kani::assume(b[0] < 128 && b[1] < 128 && b[2] < 128 && b[3] < 128);
        let s = unsafe { String::from_utf8_unchecked(vec![b[0], b[1], b[2], b[3]]) };
        let mut md: MapDeserializer<'_, String> = MapDeserializer::Value(s);
        let r = <bool as Deserialize>::deserialize(&mut md);
        let is_true = b[0] == b't' && b[1] == b'r' && b[2] == b'u' && b[3] == b'e';
        match r {
            Ok(v) => assert!(is_true && v),
            Err(_) => assert!(!is_true),
        }
        std::mem::forget(md);
    }

    //@ harness k10_u16_path_value_two_bytes property=C10 class=bounded :: deserialize_u16 of from_map's MapDeserializer on every 2-byte ASCII string: accepted iff two digits or a sign '+' and a digit
    #[kani::proof]
    #[kani::unwind(6)]
    #[kani::stub(std::fmt::format, fmt_stub)]
    fn k10_u16_path_value_two_bytes() {
        let (b0, b1, s) = two_byte_string();
        let mut md: MapDeserializer<'_, String> = MapDeserializer::Value(s);
        let r = <u16 as Deserialize>::deserialize(&mut md);
        let well_typed = (digit(b0) && digit(b1)) || ((b0 == b'+') && digit(b1));
        match r {
            Ok(v) => {
                assert!(well_typed);
                if digit(b0) { assert!(v == ((b0 - b'0') * 10 + (b1 - b'0')) as u16); }
            }
            Err(_) => assert!(!well_typed),
        }
        std::mem::forget(md);
    }

    //@ harness k10_u32_path_value_two_bytes property=C10 class=bounded :: deserialize_u32 of from_map's MapDeserializer on every 2-byte ASCII string: accepted iff two digits or a sign '+' and a digit
    #[kani::proof]
    #[kani::unwind(6)]
    #[kani::stub(std::fmt::format, fmt_stub)]
    fn k10_u32_path_value_two_bytes() {
        let (b0, b1, s) = two_byte_string();
        let mut md: MapDeserializer<'_, String> = MapDeserializer::Value(s);
        let r = <u32 as Deserialize>::deserialize(&mut md);
        let well_typed = (digit(b0) && digit(b1)) || ((b0 == b'+') && digit(b1));
        match r {
            Ok(v) => {
                assert!(well_typed);
                if digit(b0) { assert!(v == ((b0 - b'0') * 10 + (b1 - b'0')) as u32); }
            }
            Err(_) => assert!(!well_typed),
        }
        std::mem::forget(md);
    }

    //@ harness k10_u64_path_value_two_bytes property=C10 class=bounded :: deserialize_u64 of from_map's MapDeserializer on every 2-byte ASCII string: accepted iff two digits or a sign '+' and a digit
    #[kani::proof]
    #[kani::unwind(6)]
    #[kani::stub(std::fmt::format, fmt_stub)]
    fn k10_u64_path_value_two_bytes() {
        let (b0, b1, s) = two_byte_string();
        let mut md: MapDeserializer<'_, String> = MapDeserializer::Value(s);
        let r = <u64 as Deserialize>::deserialize(&mut md);
        let well_typed = (digit(b0) && digit(b1)) || ((b0 == b'+') && digit(b1));
        match r {
            Ok(v) => {
                assert!(well_typed);
                if digit(b0) { assert!(v == ((b0 - b'0') * 10 + (b1 - b'0')) as u64); }
            }
            Err(_) => assert!(!well_typed),
        }
        std::mem::forget(md);
    }

    //@ harness k10_i16_path_value_two_bytes property=C10 class=bounded :: deserialize_i16 of from_map's MapDeserializer on every 2-byte ASCII string: accepted iff two digits or a sign '+'/'-' and a digit
    #[kani::proof]
    #[kani::unwind(6)]
    #[kani::stub(std::fmt::format, fmt_stub)]
    fn k10_i16_path_value_two_bytes() {
        let (b0, b1, s) = two_byte_string();
        let mut md: MapDeserializer<'_, String> = MapDeserializer::Value(s);
        let r = <i16 as Deserialize>::deserialize(&mut md);
        let well_typed = (digit(b0) && digit(b1)) || ((b0 == b'+' || b0 == b'-') && digit(b1));
        match r {
            Ok(v) => {
                assert!(well_typed);
                if digit(b0) { assert!(v == ((b0 - b'0') * 10 + (b1 - b'0')) as i16); }
            }
            Err(_) => assert!(!well_typed),
        }
        std::mem::forget(md);
    }

    //@ harness k10_i32_path_value_two_bytes property=C10 class=bounded :: deserialize_i32 of from_map's MapDeserializer on every 2-byte ASCII string: accepted iff two digits or a sign '+'/'-' and a digit
    #[kani::proof]
    #[kani::unwind(6)]
    #[kani::stub(std::fmt::format, fmt_stub)]
    fn k10_i32_path_value_two_bytes() {
        let (b0, b1, s) = two_byte_string();
        let mut md: MapDeserializer<'_, String> = MapDeserializer::Value(s);
        let r = <i32 as Deserialize>::deserialize(&mut md);
        let well_typed = (digit(b0) && digit(b1)) || ((b0 == b'+' || b0 == b'-') && digit(b1));
        match r {
            Ok(v) => {
                assert!(well_typed);
                if digit(b0) { assert!(v == ((b0 - b'0') * 10 + (b1 - b'0')) as i32); }
            }
            Err(_) => assert!(!well_typed),
        }
        std::mem::forget(md);
    }

    //@ harness k10_i64_path_value_two_bytes property=C10 class=bounded :: deserialize_i64 of from_map's MapDeserializer on every 2-byte ASCII string: accepted iff two digits or a sign '+'/'-' and a digit
    #[kani::proof]
    #[kani::unwind(6)]
    #[kani::stub(std::fmt::format, fmt_stub)]
    fn k10_i64_path_value_two_bytes() {
        let (b0, b1, s) = two_byte_string();
        let mut md: MapDeserializer<'_, String> = MapDeserializer::Value(s);
        let r = <i64 as Deserialize>::deserialize(&mut md);
        let well_typed = (digit(b0) && digit(b1)) || ((b0 == b'+' || b0 == b'-') && digit(b1));
        match r {
            Ok(v) => {
                assert!(well_typed);
                if digit(b0) { assert!(v == ((b0 - b'0') * 10 + (b1 - b'0')) as i64); }
            }
            Err(_) => assert!(!well_typed),
        }
        std::mem::forget(md);
    }

    //@ harness k10_char_path_value property=C10 class=bounded :: deserialize_char: a 1-byte ASCII string is accepted as that character, every 2-byte ASCII string is refused
    #[kani::proof]
    #[kani::unwind(6)]
    #[kani::stub(std::fmt::format, fmt_stub)]
    fn k10_char_path_value() {
        let (b0, _b1, s2) = two_byte_string();
        let mut md2: MapDeserializer<'_, String> = MapDeserializer::Value(s2);
        assert!(<char as Deserialize>::deserialize(&mut md2).is_err());
        let s1 = unsafe { String::from_utf8_unchecked(vec![b0]) };
        let mut md1: MapDeserializer<'_, String> = MapDeserializer::Value(s1);
        match <char as Deserialize>::deserialize(&mut md1) { Ok(c) => assert!(c as u32 == b0 as u32), Err(_) => assert!(false) }
        std::mem::forget(md1); std::mem::forget(md2);
    }

    //@ harness k10_u16_path_value_five_bytes property=C10 class=bounded :: deserialize_u16 on every 5-byte ASCII string: accepted iff five digits with value <= 65535 or '+' and four digits -- so 65536..99999 ("out-of-range number") is refused
    #[kani::proof]
    #[kani::unwind(10)]
    #[kani::stub(std::fmt::format, fmt_stub)]
    fn k10_u16_path_value_five_bytes() {
        let b: [u8; 5] = kani::any();
        kani::assume(b[0] < 128 && b[1] < 128 && b[2] < 128 && b[3] < 128 && b[4] < 128);
        let s = unsafe { String::from_utf8_unchecked(vec![b[0], b[1], b[2], b[3], b[4]]) };
        let mut md: MapDeserializer<'_, String> = MapDeserializer::Value(s);
        let r = <u16 as Deserialize>::deserialize(&mut md);
        let tail4 = digit(b[1]) && digit(b[2]) && digit(b[3]) && digit(b[4]);
        let five = digit(b[0]) && tail4;
        let val: u32 = if five {
            (b[0] - b'0') as u32 * 10000 + (b[1] - b'0') as u32 * 1000 + (b[2] - b'0') as u32 * 100 + (b[3] - b'0') as u32 * 10 + (b[4] - b'0') as u32
        } else { 0 };
        let well_typed = (five && val <= 65535) || (b[0] == b'+' && tail4);
        match r {
            Ok(v) => { assert!(well_typed); if five { assert!(v as u32 == val); } }
            Err(_) => assert!(!well_typed),
        }
        std::mem::forget(md);
    }
}
