//@ append dropshot/src/handler.rs
// K4 -- typed responses (C12, partial): the status each response kind is sent with, and the redirect
// constructors' refusal of illegal Location values.
#[cfg(kani)]
mod verif_k4 {
    use super::*;

    fn fmt_stub(_args: std::fmt::Arguments<'_>) -> String { String::new() }

    //@ harness k4_status_consts property=C12 class=complete :: the status each typed response kind declares (the same constant drives the wire status and the documented `success` status): 200, 201, 202, 204, 204, 302, 303, 307
    #[kani::proof]
    fn k4_status_consts() {
        assert!(<HttpResponseOk<bool> as HttpCodedResponse>::STATUS_CODE.as_u16() == 200);
        assert!(<HttpResponseCreated<bool> as HttpCodedResponse>::STATUS_CODE.as_u16() == 201);
        assert!(<HttpResponseAccepted<bool> as HttpCodedResponse>::STATUS_CODE.as_u16() == 202);
        assert!(<HttpResponseDeleted as HttpCodedResponse>::STATUS_CODE.as_u16() == 204);
        assert!(<HttpResponseUpdatedNoContent as HttpCodedResponse>::STATUS_CODE.as_u16() == 204);
        assert!(<HttpResponseFoundStatus as HttpCodedResponse>::STATUS_CODE.as_u16() == 302);
        assert!(<HttpResponseSeeOtherStatus as HttpCodedResponse>::STATUS_CODE.as_u16() == 303);
        assert!(<HttpResponseTemporaryRedirectStatus as HttpCodedResponse>::STATUS_CODE.as_u16() == 307);
    }

    //@ harness k4_empty_kinds_wire_status property=C12 class=complete :: to_result() of the no-content and redirect status kinds is Ok with exactly the declared status (204, 204, 302, 303, 307) and no content-type header
    #[kani::proof]
    #[kani::unwind(4)]
    fn k4_empty_kinds_wire_status() {
        let which: u8 = kani::any();
        kani::assume(which < 5);
        let (r, want): (HttpHandlerResult, u16) = match which {
            0 => (HttpResponseDeleted().to_result(), 204),
            1 => (HttpResponseUpdatedNoContent().to_result(), 204),
            2 => (HttpResponseFoundStatus.to_result(), 302),
            3 => (HttpResponseSeeOtherStatus.to_result(), 303),
            _ => (HttpResponseTemporaryRedirectStatus.to_result(), 307),
        };
        match r {
            Ok(rsp) => {
                assert!(rsp.status().as_u16() == want);
                assert!(rsp.headers().is_empty());
                std::mem::forget(rsp);
            }
            Err(e) => { std::mem::forget(e); assert!(false); }
        }
    }

    //@ harness k4_redirect_found_legal property=C12 class=bounded :: BOUNDED (every string of exactly 2 ASCII bytes): http_response_found(s) is Ok <=> every byte is a legal header-value byte (tab, or >= 32 and != 127), written independently of HeaderValue::from_str
    #[kani::proof]
    #[kani::unwind(4)]
    #[kani::stub(std::fmt::format, fmt_stub)]
    fn k4_redirect_found_legal() {
        let b0: u8 = kani::any();
        let b1: u8 = kani::any();
        kani::assume(b0 < 128 && b1 < 128);
        let s = unsafe { String::from_utf8_unchecked(vec![b0, b1]) };
        let legal = |b: u8| b == 9 || (b >= 32 && b != 127);
        let r = http_response_found(s);
        assert!(r.is_ok() == (legal(b0) && legal(b1)));
        std::mem::forget(r);
    }

    //@ harness k4_redirect_see_other_legal property=C12 class=bounded :: BOUNDED (every string of exactly 2 ASCII bytes): http_response_see_other(s) is Ok <=> every byte is a legal header-value byte
    #[kani::proof]
    #[kani::unwind(4)]
    #[kani::stub(std::fmt::format, fmt_stub)]
    fn k4_redirect_see_other_legal() {
        let b0: u8 = kani::any();
        let b1: u8 = kani::any();
        kani::assume(b0 < 128 && b1 < 128);
        let s = unsafe { String::from_utf8_unchecked(vec![b0, b1]) };
        let legal = |b: u8| b == 9 || (b >= 32 && b != 127);
        let r = http_response_see_other(s);
        assert!(r.is_ok() == (legal(b0) && legal(b1)));
        std::mem::forget(r);
    }

    //@ harness k4_redirect_temporary_legal property=C12 class=bounded :: BOUNDED (every string of exactly 2 ASCII bytes): http_response_temporary_redirect(s) is Ok <=> every byte is a legal header-value byte
    #[kani::proof]
    #[kani::unwind(4)]
    #[kani::stub(std::fmt::format, fmt_stub)]
    fn k4_redirect_temporary_legal() {
        let b0: u8 = kani::any();
        let b1: u8 = kani::any();
        kani::assume(b0 < 128 && b1 < 128);
        let s = unsafe { String::from_utf8_unchecked(vec![b0, b1]) };
        let legal = |b: u8| b == 9 || (b >= 32 && b != 127);
        let r = http_response_temporary_redirect(s);
        assert!(r.is_ok() == (legal(b0) && legal(b1)));
        std::mem::forget(r);
    }

    fn check_json_wire(r: HttpHandlerResult, want: u16) {
        match r {
            Ok(rsp) => {
                assert!(rsp.status().as_u16() == want);
                match rsp.headers().get(http::header::CONTENT_TYPE) {
                    Some(v) => assert!(v.as_bytes().len() == 16), // "application/json"
                    None => assert!(false),
                }
                std::mem::forget(rsp);
            }
            Err(e) => { std::mem::forget(e); assert!(false); }
        }
    }

    //@ harness k4_json_ok_wire property=C12 class=bounded :: BOUNDED (one fixed value `true`): HttpResponseOk(v).to_result() is Ok with status 200 and content-type application/json
    #[kani::proof]
    #[kani::unwind(18)]
    #[kani::stub(std::fmt::format, fmt_stub)]
    fn k4_json_ok_wire() { check_json_wire(HttpResponseOk(true).to_result(), 200); }

    //@ harness k4_json_created_wire property=C12 class=bounded :: BOUNDED (one fixed value `true`): HttpResponseCreated(v).to_result() is Ok with status 201 and content-type application/json
    #[kani::proof]
    #[kani::unwind(18)]
    #[kani::stub(std::fmt::format, fmt_stub)]
    fn k4_json_created_wire() { check_json_wire(HttpResponseCreated(true).to_result(), 201); }

    //@ harness k4_json_accepted_wire property=C12 class=bounded :: BOUNDED (one fixed value `true`): HttpResponseAccepted(v).to_result() is Ok with status 202 and content-type application/json
    #[kani::proof]
    #[kani::unwind(18)]
    #[kani::stub(std::fmt::format, fmt_stub)]
    fn k4_json_accepted_wire() { check_json_wire(HttpResponseAccepted(true).to_result(), 202); }
}
