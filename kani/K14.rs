//@ append dropshot/src/to_map.rs
// K14 -- to_map.rs is dropshot's own serde Serializer that turns a response-header struct into (name, value) pairs
// (unit V11 treats it as an uninterpreted function).  C12: "Declared response headers are sent with the given values".
#[cfg(kani)]
mod verif_k14 {
    use super::*;
    fn fmt_stub(_args: std::fmt::Arguments<'_>) -> String { String::new() }
    #[derive(serde::Serialize)]
    struct OneHeader { etag: String }

    //@ harness k14_one_declared_header property=C12 class=bounded :: the real to_map on a struct with one String field: exactly one pair, named after the field, carrying the field's value unchanged (value: every 2-byte ASCII string)
    #[kani::proof]
    #[kani::unwind(8)]
    #[kani::stub(std::fmt::format, fmt_stub)]
    fn k14_one_declared_header() {
        let b0: u8 = kani::any();
        let b1: u8 = kani::any();
        kani::assume(b0 < 128 && b1 < 128);
        let h = OneHeader { etag: unsafe { String::from_utf8_unchecked(vec![b0, b1]) } };
        let r = to_map(&h);
        match &r {
            Ok(m) => {
                assert!(m.len() == 1);
                match m.get("etag") { Some(v) => { let t = v.as_bytes(); assert!(t.len() == 2 && t[0] == b0 && t[1] == b1); } None => assert!(false) }
            }
            Err(_) => assert!(false),
        }
        std::mem::forget(r);
        std::mem::forget(h);
    }
}
