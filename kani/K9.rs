//@ append dropshot/src/server.rs
// K9 -- assumption A10 of unit V9 ("generated request ids are legal header values") checked on the real
// crates: generate_request_id() is `format!("{}", Uuid::new_v4())`; for EVERY 16-byte uuid value the same
// formatting yields a string that http::HeaderValue::from_str accepts, so the `unwrap()` in
// http_request_handle and the `unreachable!` in HandlerError::into_response cannot fire.
#[cfg(kani)]
mod verif_k9 {
    //@ harness k9_request_id_is_legal_header_value property=C13 class=complete :: for every uuid (all 2^128 values of the 16 bytes) its hyphenated text -- what generate_request_id() returns -- is accepted by http::HeaderValue::from_str
    #[kani::proof]
    #[kani::unwind(40)]
    fn k9_request_id_is_legal_header_value() {
        let b: [u8; 16] = kani::any();
        let u = uuid::Uuid::from_bytes(b);
        let mut buf = [0u8; 36];
        let s: &str = u.hyphenated().encode_lower(&mut buf);
        assert!(s.len() == 36);
        assert!(http::header::HeaderValue::from_str(s).is_ok());
    }
}
