//@ append dropshot/src/handler.rs
// K7 -- real-code twins (Kani) of two small RequestContext methods that Verus units V4/V5 verify on extracted
// text: the effective body limit and the page-limit clamp.  A real RequestContext is built (real
// DropshotState, router, logger, header map); the two numbers that matter are symbolic over their full domains.
#[cfg(kani)]
mod verif_k7 {
    use super::*;
    use crate::api_description::ApiEndpointBodyContentType;
    use crate::config::HandlerTaskMode;
    use crate::pagination::{EmptyScanParams, PaginationParams, WhichPage};
    use crate::router::HttpRouter;
    use crate::server::{DropshotState, ServerConfig};
    use crate::versioning::VersionPolicy;
    use std::net::{IpAddr, Ipv4Addr, SocketAddr};

    fn rqctx(default_max: usize, page_max: NonZeroU32, page_default: NonZeroU32, over: Option<usize>) -> RequestContext<()> {
        let config = ServerConfig {
            default_request_body_max_bytes: default_max,
            page_max_nitems: page_max,
            page_default_nitems: page_default,
            default_handler_task_mode: HandlerTaskMode::Detached,
            log_headers: Vec::new(),
        };
        let log = slog::Logger::root(slog::Discard, slog::o!());
        let addr = SocketAddr::new(IpAddr::V4(Ipv4Addr::new(127, 0, 0, 1)), 0);
        let server = Arc::new(DropshotState {
            private: (),
            config,
            router: HttpRouter::new(),
            log: log.clone(),
            local_addr: addr,
            tls_acceptor: None,
            handler_waitgroup_worker: debug_ignore::DebugIgnore(waitgroup::WaitGroup::new().worker()),
            version_policy: VersionPolicy::Unversioned,
        });
        RequestContext {
            server,
            endpoint: RequestEndpointMetadata {
                operation_id: String::new(),
                variables: Default::default(),
                body_content_type: ApiEndpointBodyContentType::Json,
                request_body_max_bytes: over,
            },
            request_id: String::new(),
            log,
            request: RequestInfo {
                method: http::Method::GET,
                uri: http::Uri::default(),
                version: http::Version::HTTP_11,
                headers: http::HeaderMap::new(),
                remote_addr: addr,
            },
        }
    }

    //@ harness k7_effective_body_limit property=C11 class=complete :: RequestContext::request_body_max_bytes() on a real RequestContext == the endpoint's override if set, else the server default; all usize values of both, override present or absent
    #[kani::proof]
    #[kani::unwind(3)]
    fn k7_effective_body_limit() {
        let default_max: usize = kani::any();
        let has_over: bool = kani::any();
        let over_v: usize = kani::any();
        let one = NonZeroU32::MIN;
        let cx = rqctx(default_max, one, one, if has_over { Some(over_v) } else { None });
        let got = cx.request_body_max_bytes();
        assert!(got == if has_over { over_v } else { default_max });
        std::mem::forget(cx);
    }

    //@ harness k7_page_limit_clamp property=C14,C15 class=complete :: RequestContext::page_limit() on a real RequestContext == min(client limit, server max) if a limit is given, else the server default; all NonZeroU32 values of the three numbers
    #[kani::proof]
    #[kani::unwind(3)]
    fn k7_page_limit_clamp() {
        let page_max: NonZeroU32 = kani::any();
        let page_default: NonZeroU32 = kani::any();
        let has_limit: bool = kani::any();
        let limit: NonZeroU32 = kani::any();
        let cx = rqctx(1024, page_max, page_default, None);
        let pp: PaginationParams<EmptyScanParams, u8> = PaginationParams {
            page: WhichPage::First(EmptyScanParams {}),
            limit: if has_limit { Some(limit) } else { None },
        };
        match cx.page_limit(&pp) {
            Ok(n) => {
                let want = if has_limit { if limit.get() <= page_max.get() { limit.get() } else { page_max.get() } } else { page_default.get() };
                assert!(n.get() == want);
            }
            Err(e) => { std::mem::forget(e); assert!(false); }
        }
        std::mem::forget(pp);
        std::mem::forget(cx);
    }
}
