// C06: "one operation - under its method, path template and operation id - for each published endpoint": the
// listing that gen_openapi assembles the document from (and that the server logs at start-up) reports a wildcard
// route under the template of a single-segment variable.  Placed in the test module of dropshot/src/router.rs.
    #[test]
    fn test_iter_reports_a_wildcard_route_under_its_own_template() {
        let mut router = HttpRouter::new();
        router.insert(new_endpoint(
            new_handler_named("files"),
            Method::GET,
            "/files/{rest:.*}",
        ));
        let ret: Vec<_> = router.endpoints(None).map(|x| (x.0, x.1)).collect();
        // unfixed tree: left is "/files/{rest}"
        assert_eq!(ret, vec![("/files/{rest:.*}".to_string(), "GET".to_string())]);
    }
