// Demonstration for F1 (append to dropshot/src/api_description.rs).
// Fails before the fix (commit "fix: overlaps_with missed From(A) vs ..."), passes after.
#[cfg(test)]
mod verif_f1_demo {
    use super::*;
    #[test]
    fn f1_from_vs_single_version_range() {
        let a = semver::Version::new(1, 2, 3);
        let from = ApiEndpointVersions::from(a.clone());
        let single = ApiEndpointVersions::from_until(a.clone(), a.clone()).unwrap();
        // version `a` belongs to both ranges ...
        assert!(from.matches(Some(&a)) && single.matches(Some(&a)));
        // ... so they must be reported as overlapping, in both orders
        assert!(from.overlaps_with(&single), "From(a) vs FromUntil(a,a)");
        assert!(single.overlaps_with(&from), "FromUntil(a,a) vs From(a)");
    }
}
