use dropshot::{endpoint, ApiDescription, HttpError, HttpResponseOk, RequestContext, TypedBody};
use dropshot::test_util::TestContext;
use dropshot::ConfigDropshot;
use schemars::JsonSchema;
use serde::Deserialize;

#[derive(Deserialize, JsonSchema)]
struct Args { a: u32 }

#[endpoint { method = PUT, path = "/thing" }]
async fn put_thing(_rqctx: RequestContext<()>, body: TypedBody<Args>) -> Result<HttpResponseOk<u32>, HttpError> {
    Ok(HttpResponseOk(body.into_inner().a))
}

#[tokio::test]
async fn json_body_with_trailing_garbage_is_refused() {
    let mut api = ApiDescription::new();
    api.register(put_thing).unwrap();
    let log = slog::Logger::root(slog::Discard, slog::o!());
    let testctx = TestContext::new(api, (), &ConfigDropshot::default(), None, log);
    let client = &testctx.client_testctx;
    let uri = client.url("/thing");
    for body in ["{\"a\": 1} trailing garbage", "{\"a\": 1}{\"a\": 2}", "{\"a\": 1}]"] {
        let req = hyper::Request::builder().method(http::Method::PUT).uri(uri.clone())
            .header("content-type", "application/json")
            .body(body.to_string().into()).unwrap();
        // (test_util asserts the status: a 200 panics inside make_request_with_request)
        let err = client
            .make_request_with_request(req, http::StatusCode::BAD_REQUEST)
            .await
            .expect_err("a 400 response carries an error body");
        assert!(err.message.starts_with("unable to parse JSON body"), "body {:?}: {:?}", body, err);
    }
    testctx.teardown().await;
}
