// Demonstration for F3 (append to dropshot/src/error.rs inside a #[cfg(test)] module).
// Fails (panics with `Option::unwrap()` on a `None` value) before the fix, passes after.
#[cfg(test)]
mod verif_f3_demo {
    use super::*;
    #[test]
    fn f3_client_error_with_status_total() {
        // 447 is the counterexample Kani produced; 444 is the code the crate's own
        // documentation uses as an example of a valid ClientErrorStatusCode.
        for c in [444u16, 447] {
            let sc = ClientErrorStatusCode::from_u16(c).unwrap();
            let e = HttpError::for_client_error_with_status(None, sc);
            assert_eq!(e.status_code.as_u16(), c);
        }
    }
}
