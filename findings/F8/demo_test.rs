// C11: "No handler, buffered or streaming, ever observes more body bytes than the limit" -- for the multipart
// extractor.  The handler counts every byte it is given and turns a read error into a 400.
use dropshot::test_util::TestContext;
use dropshot::{endpoint, ApiDescription, Body, ConfigDropshot, HttpError, MultipartBody, RequestContext};
use http::{Method, Response, StatusCode};
use std::sync::atomic::{AtomicUsize, Ordering};

static OBSERVED: AtomicUsize = AtomicUsize::new(0);

#[endpoint { method = POST, path = "/upload" }]
async fn api_multipart(_rqctx: RequestContext<()>, mut body: MultipartBody) -> Result<Response<Body>, HttpError> {
    loop {
        let field = body.content.next_field().await.map_err(|e| HttpError::for_bad_request(None, e.to_string()))?;
        let Some(mut field) = field else { break };
        while let Some(chunk) = field.chunk().await.map_err(|e| HttpError::for_bad_request(None, e.to_string()))? {
            OBSERVED.fetch_add(chunk.len(), Ordering::SeqCst);
        }
    }
    Ok(Response::builder().status(StatusCode::OK).body(Body::empty())?)
}

#[tokio::test]
async fn multipart_body_over_the_limit_is_not_delivered() {
    let mut api = ApiDescription::new();
    api.register(api_multipart).unwrap();
    let config = ConfigDropshot::default();
    assert_eq!(config.default_request_body_max_bytes, 1024);
    let log = slog::Logger::root(slog::Discard, slog::o!());
    let testctx = TestContext::new(api, (), &config, None, log);
    let client = &testctx.client_testctx;
    let payload = "x".repeat(5000);
    let body = format!("--B\r\nContent-Disposition: form-data; name=\"f\"\r\n\r\n{}\r\n--B--\r\n", payload);
    let req = hyper::Request::builder().method(Method::POST).uri(client.url("/upload"))
        .header("Content-Type", "multipart/form-data; boundary=B")
        .body(body.into()).unwrap();
    // test_util asserts the status: a 200 panics inside make_request_with_request
    let _ = client.make_request_with_request(req, StatusCode::BAD_REQUEST).await;
    let seen = OBSERVED.load(Ordering::SeqCst);
    assert!(seen <= 1024, "the handler observed {} body bytes although the limit is 1024", seen);
    testctx.teardown().await;
}
