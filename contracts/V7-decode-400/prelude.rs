use vstd::prelude::*;
//@ items
//@ include ../_common/prelude_http.rs
//@ include ../_common/prelude_error.rs

// ---- TRUSTED: the decoders as uninterpreted partial functions ----
pub trait DeserializeOwned {}
pub trait ServerContext {}
pub struct Opaque<T> { pub _p: core::marker::PhantomData<T> }
#[verifier::external_body]
pub struct VariableSet { _p: u8 }
/// crate::from_map::from_map on the routing variables
pub uninterp spec fn from_map_spec<T>(m: VariableSet) -> Option<T>;
/// A7: the error text of from_map never starts with "missing field: " for path parameters that were
/// validated at registration (serde's own missing_field text is "missing field `x`")
pub uninterp spec fn is_missing_field_msg(s: Seq<char>) -> bool;
#[verifier::external_body]
pub fn from_map<T: DeserializeOwned>(m: &VariableSet) -> (r: Result<T, String>)
    ensures (r is Ok) == (from_map_spec::<T>(*m) is Some), r is Ok ==> r->Ok_0 == from_map_spec::<T>(*m)->Some_0,
            r is Err ==> !is_missing_field_msg(r->Err_0@) { unimplemented!() }
/// str::starts_with (generic over the unstable Pattern trait, so it is reached through this stand-in:
/// W1 `.starts_with(` -> `.starts_with_str(` in http_extract_path_params)
pub trait StartsWithStr { fn starts_with_str(&self, p: &str) -> bool; }
impl StartsWithStr for String {
    #[verifier::external_body]
    fn starts_with_str(&self, p: &str) -> (r: bool)
        ensures p@ == "missing field: "@ ==> r == is_missing_field_msg(self@) { unimplemented!() }
}

#[verifier::external_body]
pub struct RequestInfo { _p: u8 }
#[verifier::external_body]
pub struct Uri { _p: u8 }
pub uninterp spec fn req_query(r: RequestInfo) -> Option<Seq<char>>;
pub uninterp spec fn uri_query(u: Uri) -> Option<Seq<char>>;
impl RequestInfo {
    #[verifier::external_body]
    pub fn uri(&self) -> (r: &Uri) ensures uri_query(*r) == req_query(*self) { unimplemented!() }
}
impl Uri {
    #[verifier::external_body]
    pub fn query(&self) -> (r: Option<&str>)
        ensures (r is Some) == (uri_query(*self) is Some), r is Some ==> r->Some_0@ == uri_query(*self)->Some_0 { unimplemented!() }
}
#[verifier::external_body]
pub struct UrlencodedError { _p: u8 }
pub uninterp spec fn urlencoded_spec<T>(s: Seq<char>) -> Option<T>;
#[verifier::external_body]
pub fn urlencoded_from_str<T: DeserializeOwned>(s: &str) -> (r: Result<T, UrlencodedError>)
    ensures (r is Ok) == (urlencoded_spec::<T>(s@) is Some), r is Ok ==> r->Ok_0 == urlencoded_spec::<T>(s@)->Some_0 { unimplemented!() }

pub struct Bytes { pub data: Ghost<Seq<u8>> }
impl core::ops::Deref for Bytes {
    type Target = [u8];
    #[verifier::external_body]
    fn deref(&self) -> (r: &[u8]) ensures r@ == self.data@ { unimplemented!() }
}
#[verifier::external_body]
pub struct Utf8Error { _p: u8 }
pub uninterp spec fn utf8_decode(b: Seq<u8>) -> Option<Seq<char>>;
#[verifier::external_body]
pub fn str_from_utf8(b: &[u8]) -> (r: Result<&str, Utf8Error>)
    ensures (r is Ok) == (utf8_decode(b@) is Some), r is Ok ==> r->Ok_0@ == utf8_decode(b@)->Some_0 { unimplemented!() }

/// std: <[u8]>::trim_ascii_end / trim_ascii_start / trim_ascii (no vstd contract in this build): some sub-slice of the
/// input -- in general NOT the input itself
pub uninterp spec fn ascii_trimmed(s: Seq<u8>, which: int) -> Seq<u8>;
pub assume_specification[ <[u8]>::trim_ascii_end ](s: &[u8]) -> (r: &[u8]) ensures r@ == ascii_trimmed(s@, 1);
pub assume_specification[ <[u8]>::trim_ascii_start ](s: &[u8]) -> (r: &[u8]) ensures r@ == ascii_trimmed(s@, 0);
pub assume_specification[ <[u8]>::trim_ascii ](s: &[u8]) -> (r: &[u8]) ensures r@ == ascii_trimmed(s@, 2);
