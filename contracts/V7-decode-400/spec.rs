// ---- CHECKED ----
proof fn sentinel_v7_prelude_consistent()
    ensures false
{
    ax_known_reasons();
}
