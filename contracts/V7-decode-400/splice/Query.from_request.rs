//@ ret r
//@ contract
        ensures
            ({ let q = match req_query(rqctx.request) { Some(s) => s, None => ""@ };
               &&& (r is Ok) == (urlencoded_spec::<QueryType>(q) is Some)
               &&& r is Ok ==> r->Ok_0.inner == urlencoded_spec::<QueryType>(q)->Some_0 }), // @query_extractor_fails_only_on_undecodable_query
            r is Err ==> is_client_code(status_of(r->Err_0)), // @query_extractor_error_is_400
