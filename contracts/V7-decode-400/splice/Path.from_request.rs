//@ ret r
//@ contract
        ensures
            (r is Ok) == (from_map_spec::<PathType>(rqctx.endpoint.variables) is Some), // @path_extractor_fails_only_on_undecodable_variables
            r is Ok ==> r->Ok_0.inner == from_map_spec::<PathType>(rqctx.endpoint.variables)->Some_0, // @path_value_unaltered
            r is Err ==> status_of(r->Err_0) == 400, // @path_extractor_error_is_400
