//@ ret r
//@ contract
        ensures
            (r is Ok) == (from_map_spec::<PathType>(rqctx.endpoint.variables) is Some), // @path_extractor_fails_only_on_undecodable_variables
            r is Ok ==> r->Ok_0.inner == from_map_spec::<PathType>(rqctx.endpoint.variables)->Some_0, // @path_value_unaltered
            r is Err ==> is_client_code(status_of(r->Err_0)), // @path_extractor_error_is_400
