//@ ret r
//@ contract
        ensures
            (r is Ok) == (utf8_decode(self.content.data@) is Some), // @ok_iff_valid_utf8
            r is Ok ==> r->Ok_0@ == utf8_decode(self.content.data@)->Some_0, // @text_unaltered
            r is Err ==> is_client_code(status_of(r->Err_0)), // @invalid_utf8_refused_with_400
//@ closure 0
|e: Utf8Error| -> (h: HttpError) ensures is_client_code(status_of(h))
