//@ ret r
//@ contract
    ensures
        ({ let q = match req_query(*request) { Some(s) => s, None => ""@ };
           &&& (r is Ok) == (urlencoded_spec::<QueryType>(q) is Some)
           &&& r is Ok ==> r->Ok_0.inner == urlencoded_spec::<QueryType>(q)->Some_0 }), // @ok_iff_query_decodes_value_unaltered
        r is Err ==> is_client_code(status_of(r->Err_0)), // @undecodable_query_refused_with_400
