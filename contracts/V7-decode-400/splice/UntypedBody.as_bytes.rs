//@ ret r
//@ contract
        ensures r@ == self.content.data@, // @bytes_unaltered
