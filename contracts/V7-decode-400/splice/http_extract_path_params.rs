//@ ret r
//@ contract
    ensures
        (r is Ok) == (from_map_spec::<T>(*path_params) is Some), // @ok_iff_path_variables_decode
        r is Ok ==> r->Ok_0 == from_map_spec::<T>(*path_params)->Some_0, // @value_passed_through_unaltered
        r is Err ==> is_client_code(status_of(r->Err_0)), // @undecodable_path_refused_with_400
//@ closure 0
|message: String| -> (h: HttpError) requires !is_missing_field_msg(message@) ensures is_client_code(status_of(h))
