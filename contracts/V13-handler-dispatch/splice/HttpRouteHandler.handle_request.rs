//@ ret r
//@ contract
        ensures
            // the handler runs only on successfully extracted arguments (precondition of HttpHandlerFunc::handle_request,
            // proved at the call) ...
            extraction::<FuncParams, Context>(rqctx, request) is Err ==> r is Err,      // @a_refused_request_is_answered_with_an_error_without_the_handler
            // ... and what it returns -- response or error -- is passed on unaltered
            extraction::<FuncParams, Context>(rqctx, request) is Ok ==>
                r == self.handler.outcome(rqctx, extraction::<FuncParams, Context>(rqctx, request)->Ok_0),   // @the_handlers_own_outcome_is_passed_on_unaltered
