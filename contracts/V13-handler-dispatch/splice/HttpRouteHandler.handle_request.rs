//@ ret r
//@ contract
        ensures true, // @handler_called_only_after_successful_extraction_see_precondition_of_HttpHandlerFunc
