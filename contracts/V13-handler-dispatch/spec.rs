proof fn sentinel_v13_prelude_consistent()
    ensures false
{
    ax_known_reasons();
}
proof fn sentinel_extracted_ok_not_trivial<P>(p: P)
    ensures extracted_ok(p)
{}
