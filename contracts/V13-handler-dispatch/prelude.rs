use vstd::prelude::*;
use std::marker::PhantomData;
//@ items
//@ include ../_common/prelude_http.rs
//@ include ../_common/prelude_error.rs
//@ include ../_common/prelude_response.rs
pub struct HttpErrorResponseBody { pub request_id: String, pub error_code: Option<String>, pub message: String }

// ---- TRUSTED: the traits handle_request is generic over, as contracts ----
pub trait ServerContext {}
#[verifier::external_body]
pub struct Request { _p: u8 }
#[verifier::external_body]
#[verifier::accept_recursive_types(Context)]
pub struct RequestContext<Context> { _p: PhantomData<Context> }
pub enum HandlerError { Handler { message: String, rsp: Response }, Dropshot(HttpError) }
pub trait HttpResponse {}
pub trait HttpResponseError: From<HttpError> {}
/// `impl<E: HttpResponseError> From<E> for HandlerError` (handler.rs) -- result not needed here
pub uninterp spec fn handler_error_of<E>(e: E) -> HandlerError;
impl<E: HttpResponseError> From<E> for HandlerError {
    #[verifier::external_body]
    fn from(e: E) -> (r: HandlerError) ensures r == handler_error_of(e) { unimplemented!() }
}
impl<E: HttpResponseError> vstd::std_specs::convert::FromSpecImpl<E> for HandlerError {
    open spec fn obeys_from_spec() -> bool { true }
    open spec fn from_spec(e: E) -> Self { handler_error_of(e) }
}
/// "this argument tuple was produced by a SUCCESSFUL extraction from this request"
pub uninterp spec fn extracted_ok<P>(p: P) -> bool;
/// extractor/common.rs: RequestExtractor (async erased)
/// what the extractor makes of this request: an uninterpreted function of the request context and the request
pub uninterp spec fn extraction<P, Context>(rqctx: RequestContext<Context>, request: Request) -> Result<P, HttpError>;
pub trait RequestExtractor: Sized {
    fn from_request<Context: ServerContext>(rqctx: &RequestContext<Context>, request: Request) -> (r: Result<Self, HttpError>)
        ensures r == extraction::<Self, Context>(*rqctx, request), r is Ok ==> extracted_ok(r->Ok_0);
}
/// handler.rs: HttpHandlerFunc -- the consumer's handler function.  Its PRECONDITION is the obligation "a handler
/// only ever runs on arguments that a successful extraction produced"; it is proved at the call site in
/// HttpRouteHandler::handle_request.
pub trait HttpHandlerFunc<Context: ServerContext, FuncParams: RequestExtractor, ResponseType: HttpResponse> {
    type Error: HttpResponseError;
    /// what the consumer's handler returns for these arguments
    spec fn outcome(&self, rqctx: RequestContext<Context>, params: FuncParams) -> Result<Response, HandlerError>;
    /// the consumer's own conversion of dropshot's error into its error type (`Self::Error: From<HttpError>`)
    spec fn own_error(e: HttpError) -> Self::Error;
    fn handle_request(&self, rqctx: RequestContext<Context>, params: FuncParams) -> (r: Result<Response, HandlerError>)
        requires extracted_ok(params),
        ensures r == self.outcome(rqctx, params);
}
pub trait RouteHandler<Context: ServerContext> {
    fn handle_request(&self, rqctx: RequestContext<Context>, request: Request) -> Result<Response, HandlerError>;
}
