use vstd::prelude::*;
use vstd::std_specs::cmp::*;
use core::cmp::Ordering;
use std::str::FromStr;
//@ items
//@ include ../_common/prelude_version.rs
//@ include ../_common/prelude_http.rs
//@ include ../_common/prelude_error.rs

// ---- TRUSTED: request headers and str::parse as uninterpreted partial functions ----
#[verifier::external_body]
pub struct Logger { _p: u8 }
#[verifier::external_body]
pub struct Request { _p: u8 }
pub uninterp spec fn req_headers(r: Request) -> HeaderMap;
impl Request {
    #[verifier::external_body]
    pub fn headers(&self) -> (r: &HeaderMap) ensures *r == req_headers(*self) { unimplemented!() }
}
#[verifier::external_body]
pub struct ToStrError { _p: u8 }
/// the (first) value stored under a header name, if any
pub uninterp spec fn hdr_lookup(h: HeaderMap, name: Seq<char>) -> Option<HeaderValue>;
/// HeaderValue::to_str: Some(text) iff the value is visible ASCII
pub uninterp spec fn hv_ascii(v: HeaderValue) -> Option<Seq<char>>;
impl HeaderMap {
    #[verifier::external_body]
    pub fn get(&self, n: &HeaderName) -> (r: Option<&HeaderValue>)
        ensures (r is Some) == (hdr_lookup(*self, n.name@) is Some), r is Some ==> *r->Some_0 == hdr_lookup(*self, n.name@)->Some_0 { unimplemented!() }
}
impl HeaderValue {
    #[verifier::external_body]
    pub fn to_str(&self) -> (r: Result<&str, ToStrError>)
        ensures (r is Ok) == (hv_ascii(*self) is Some), r is Ok ==> r->Ok_0@ == hv_ascii(*self)->Some_0 { unimplemented!() }
}
#[verifier::external_trait_specification]
pub trait ExFromStr: Sized {
    type ExternalTraitSpecificationFor: FromStr;
    type Err;
}
/// str::parse::<F>: Some(value) iff the text parses
pub uninterp spec fn parse_spec<T>(s: Seq<char>) -> Option<T>;
pub assume_specification<F: FromStr>[str::parse::<F>](s: &str) -> (r: Result<F, F::Err>)
    ensures (r is Ok) == (parse_spec::<F>(s@) is Some), r is Ok ==> r->Ok_0 == parse_spec::<F>(s@)->Some_0;
impl FromStr for Version {
    type Err = ToStrError;
    #[verifier::external_body]
    fn from_str(s: &str) -> (r: Result<Self, Self::Err>) { unimplemented!() }
}
