// ---- CHECKED: the header policy, from the statement of C05 ----

/// the text of the version header of a request, if present and ASCII
pub open spec fn header_text(h: HeaderMap, name: Seq<char>) -> Option<Seq<char>> {
    match hdr_lookup(h, name) { Some(v) => hv_ascii(v), None => None }
}
/// C05: "a request is routed at exactly the version named in the header, and a missing, unparsable
/// or newer-than-supported version is answered with a 400-level error"
pub open spec fn header_version(h: HeaderMap, name: Seq<char>, max: Version) -> Option<Version> {
    match header_text(h, name) {
        None => None,
        Some(t) => match parse_spec::<Version>(t) {
            None => None,
            Some(v) => if vle(v, max) { Some(v) } else { None },
        },
    }
}

proof fn sentinel_v3_prelude_consistent()
    ensures false
{
    broadcast use vle_total, vle_antisym, vle_trans;
    ax_known_reasons();
}
proof fn sentinel_header_version_not_always_none(h: HeaderMap, name: Seq<char>, max: Version)
    ensures header_version(h, name, max) is None
{
    broadcast use vle_total, vle_antisym, vle_trans;
}
