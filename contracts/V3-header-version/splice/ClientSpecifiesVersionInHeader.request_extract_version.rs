//@ ret r
//@ contract
        ensures
            (r is Ok) == (header_version(req_headers(*request), self.name.name@, self.max_version) is Some), // @ok_iff_named_parsable_and_supported
            r is Ok ==> r->Ok_0 == header_version(req_headers(*request), self.name.name@, self.max_version)->Some_0, // @routed_at_exactly_the_named_version
            r is Err ==> is_client_code(status_of(r->Err_0)), // @refused_with_400
//@ body_start
        broadcast use vle_total, vle_antisym, vle_trans;
