//@ ret r
//@ contract
        ensures
            *self is Unversioned ==> r == Ok::<Option<Version>, HttpError>(None), // @unversioned_server_ignores_versions
            *self is Dynamic && r is Ok ==> r->Ok_0 is Some, // @versioned_server_always_routes_at_a_version
