//@ ret r
//@ contract
    ensures
        (r is Ok) == (header_text(*headers, header_name.name@) is Some
                      && parse_spec::<T>(header_text(*headers, header_name.name@)->Some_0) is Some), // @ok_iff_present_ascii_and_parses
        r is Ok ==> r->Ok_0 == parse_spec::<T>(header_text(*headers, header_name.name@)->Some_0)->Some_0, // @value_is_the_parsed_one
        r is Err ==> is_client_code(status_of(r->Err_0)), // @refused_with_400
//@ closure 0
|| -> (e: HttpError) ensures is_client_code(status_of(e))
//@ closure 1
|_e: ToStrError| -> (e: HttpError) ensures is_client_code(status_of(e))
//@ closure 2
|e: <T as FromStr>::Err| -> (h: HttpError) ensures is_client_code(status_of(h))
