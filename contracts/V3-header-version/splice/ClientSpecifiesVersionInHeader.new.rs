//@ ret r
//@ contract
        ensures r.name == name, r.max_version == max_version, // @policy_holds_its_arguments
