use vstd::prelude::*;
use std::collections::HashMap;
use vstd::std_specs::iter::IteratorSpec;
use std::collections::HashSet;
use std::collections::BTreeMap;
//@ items
pub trait ServerContext {}
pub struct Opaque<T> { pub _p: core::marker::PhantomData<T> }
#[verifier::external_body]
pub fn fmt_opaque() -> String { unimplemented!() }
// A8: String's Hash/Eq obey vstd's hash-key model (vstd declares this only for primitive keys)
pub broadcast axiom fn axiom_string_obeys_key_model()
    ensures #[trigger] vstd::std_specs::hash::obeys_key_model::<String>();

// ---- TRUSTED: the router and the two other validators as opaque operations ----
pub struct HttpRouter<C: ServerContext> { pub routes: Ghost<Seq<ApiEndpoint<C>>> }
impl<C: ServerContext> HttpRouter<C> {
    /// HttpRouter::insert (panics on a routing conflict; that decision is V1/K1's `overlaps_with`)
    #[verifier::external_body]
    pub fn insert(&mut self, e: ApiEndpoint<C>)
        ensures final(self).routes@ == old(self).routes@.push(e) { unimplemented!() }
}
impl<Context: ServerContext> ApiDescription<Context> {
}

// ---- TRUSTED: path templates (as in unit V14) ----
pub uninterp spec fn template_of(path: Seq<char>) -> Seq<Seq<char>>;
pub open spec fn texts(s: Seq<&str>) -> Seq<Seq<char>> { Seq::new(s.len(), |i: int| s[i]@) }
#[verifier::external_body]
pub fn route_path_to_segments(path: &str) -> (r: Vec<&str>)
    ensures r@.len() == template_of(path@).len(),
        forall|i: int| #![trigger r@[i]] #![trigger template_of(path@)[i]] 0 <= i < r@.len() ==> r@[i]@ == template_of(path@)[i],
{ unimplemented!() }
pub uninterp spec fn seg_of(s: Seq<char>) -> PathSegment;
impl PathSegment {
    #[verifier::external_body]
    pub fn from(segment: &str) -> (r: PathSegment) ensures r == seg_of(segment@) { unimplemented!() }
}
// ---- TRUSTED: std's `slice.iter().filter_map(f).collect::<HashSet<_>>()` with its documented behaviour ----
pub struct FilterMapped<'a, T, F> { pub items: Ghost<Seq<T>>, pub f: F, pub _l: core::marker::PhantomData<&'a T> }
pub trait FilterMapOf<T> { fn filter_map_of<'a, U, F: Fn(&'a T) -> Option<U>>(&'a self, f: F) -> FilterMapped<'a, T, F>; }
impl<T> FilterMapOf<T> for Vec<T> {
    #[verifier::external_body]
    fn filter_map_of<'a, U, F: Fn(&'a T) -> Option<U>>(&'a self, f: F) -> (r: FilterMapped<'a, T, F>)
        ensures r.items@ == self@, r.f == f
    { unimplemented!() }
}
impl<'a, T, F: Fn(&'a T) -> Option<String>> FilterMapped<'a, T, F> {
    /// the set of all values the function returned `Some` of, over all items
    #[verifier::external_body]
    pub fn collect_set(self) -> (r: HashSet<String>)
        requires forall|x: &'a T| call_requires(self.f, (x,)),
        ensures
            forall|y: String| #[trigger] r@.contains(y) ==> exists|i: int| 0 <= i < self.items@.len() && #[trigger] call_ensures(self.f, (&self.items@[i],), Some(y)),
            forall|i: int| #![trigger self.items@[i]] 0 <= i < self.items@.len() ==> exists|o: Option<String>| #[trigger] call_ensures(self.f, (&self.items@[i],), o) && (o is Some ==> r@.contains(o->Some_0)),
    { unimplemented!() }
}
/// `a != b` on HashSet<String> (W1)
#[verifier::external_body]
pub fn hashset_eq(a: &HashSet<String>, b: &HashSet<String>) -> (r: bool) ensures r == (a@ == b@) { unimplemented!() }
/// W10: `a.difference(&b).collect::<Vec<_>>()` then sorted -- used only for the error text and for `is_empty()`
pub struct NameList { pub empty: Ghost<bool> }
#[verifier::external_body]
pub fn names_only_in(a: &HashSet<String>, b: &HashSet<String>) -> (r: NameList)
    ensures r.empty@ == (forall|y: String| a@.contains(y) ==> b@.contains(y)) { unimplemented!() }
impl NameList {
    #[verifier::external_body]
    pub fn is_empty(&self) -> (r: bool) ensures r == self.empty@ { unimplemented!() }
}

impl<'a, T, V, F: Fn(&'a T) -> Option<(String, V)>> FilterMapped<'a, T, F> {
    /// `.collect::<BTreeMap<_, _>>()`: every key of the map was produced (with the value the map holds for it) by
    /// some item, and every item that produced a pair has its key in the map (for a repeated key the last wins)
    #[verifier::external_body]
    pub fn collect_btree(self) -> (r: BTreeMap<String, V>)
        requires forall|x: &'a T| call_requires(self.f, (x,)),
        ensures
            forall|k: String| #[trigger] r@.contains_key(k) ==> exists|i: int| 0 <= i < self.items@.len() && #[trigger] call_ensures(self.f, (&self.items@[i],), Some((k, r@[k]))),
            forall|i: int| #![trigger self.items@[i]] 0 <= i < self.items@.len() ==> exists|o: Option<(String, V)>| #[trigger] call_ensures(self.f, (&self.items@[i],), o) && (o is Some ==> r@.contains_key(o->Some_0.0)),
    { unimplemented!() }
}
pub broadcast axiom fn ax_string_obeys_cmp()
    ensures #[trigger] vstd::laws_cmp::obeys_cmp::<String>();
// ---- TRUSTED: schema inspection (type_util.rs over schemars types): uninterpreted predicates ----
#[verifier::external_body]
pub struct Schema { _p: u8 }
#[verifier::external_body]
pub struct SchemaDeps { _p: u8 }
/// (unit V23 verifies type_util.rs's real functions against the documented meaning of these two predicates:
/// scalar_schema = scalar_ok(.., scalar_type), string_enum_schema = string_list_ok)
pub uninterp spec fn scalar_schema(s: Schema, d: SchemaDeps) -> bool;
pub uninterp spec fn string_enum_schema(s: Schema, d: SchemaDeps) -> bool;
#[verifier::external_body]
pub fn type_is_scalar(operation_id: &str, name: &str, schema: &Schema, dependencies: &SchemaDeps) -> (r: Result<(), String>)
    ensures (r is Ok) == scalar_schema(*schema, *dependencies) { unimplemented!() }
#[verifier::external_body]
pub fn type_is_string_enum(operation_id: &str, name: &str, schema: &Schema, dependencies: &SchemaDeps) -> (r: Result<(), String>)
    ensures (r is Ok) == string_enum_schema(*schema, *dependencies) { unimplemented!() }
