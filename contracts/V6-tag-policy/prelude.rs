use vstd::prelude::*;
use std::collections::HashMap;
//@ items
pub trait ServerContext {}
pub struct Opaque<T> { pub _p: core::marker::PhantomData<T> }
#[verifier::external_body]
pub fn fmt_opaque() -> String { unimplemented!() }
// A8: String's Hash/Eq obey vstd's hash-key model (vstd declares this only for primitive keys)
pub broadcast axiom fn axiom_string_obeys_key_model()
    ensures #[trigger] vstd::std_specs::hash::obeys_key_model::<String>();

// ---- TRUSTED: the router and the two other validators as opaque operations ----
pub struct HttpRouter<C: ServerContext> { pub routes: Ghost<Seq<ApiEndpoint<C>>> }
impl<C: ServerContext> HttpRouter<C> {
    /// HttpRouter::insert (panics on a routing conflict; that decision is V1/K1's `overlaps_with`)
    #[verifier::external_body]
    pub fn insert(&mut self, e: ApiEndpoint<C>)
        ensures final(self).routes@ == old(self).routes@.push(e) { unimplemented!() }
}
pub uninterp spec fn path_parameters_ok<C: ServerContext>(e: ApiEndpoint<C>) -> bool;
pub uninterp spec fn named_parameters_ok<C: ServerContext>(e: ApiEndpoint<C>) -> bool;
impl<Context: ServerContext> ApiDescription<Context> {
    #[verifier::external_body]
    pub fn validate_path_parameters(&self, e: &ApiEndpoint<Context>) -> (r: Result<(), String>)
        ensures (r is Ok) == path_parameters_ok(*e) { unimplemented!() }
    #[verifier::external_body]
    pub fn validate_named_parameters(&self, e: &ApiEndpoint<Context>) -> (r: Result<(), String>)
        ensures (r is Ok) == named_parameters_ok(*e) { unimplemented!() }
}
