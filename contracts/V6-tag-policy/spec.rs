// ---- CHECKED: the tag policy, from the statement of C02 ("tags that violate the tag policy") ----
pub open spec fn policy_ok(p: EndpointTagPolicy, ntags: nat) -> bool {
    match p {
        EndpointTagPolicy::Any => true,
        EndpointTagPolicy::AtLeastOne => ntags >= 1,
        EndpointTagPolicy::ExactlyOne => ntags == 1,
    }
}
/// an endpoint satisfies the description's tag configuration
pub open spec fn tags_ok<C: ServerContext>(d: ApiDescription<C>, e: ApiEndpoint<C>) -> bool {
    !e.visible || (
        policy_ok(d.tag_config.policy, e.tags@.len())
        && (d.tag_config.allow_other_tags
            || forall|i: int| 0 <= i < e.tags@.len() ==> d.tag_config.tags@.contains_key(#[trigger] e.tags@[i]))
    )
}
// ---- CHECKED: C02 "path variables that differ from the handler's path parameters" ----
/// the variable a template segment declares, if any
pub open spec fn var_of(s: PathSegment) -> Option<String> {
    match s { PathSegment::VarnameSegment(v) => Some(v), PathSegment::VarnameWildcard(v) => Some(v), PathSegment::Literal(_) => None }
}
/// the path parameter a handler parameter names, if any
pub open spec fn path_name(m: ApiEndpointParameterMetadata) -> Option<String> {
    match m { ApiEndpointParameterMetadata::Path(n) => Some(n), _ => None }
}
pub open spec fn is_template_var(path: Seq<char>, y: String) -> bool {
    exists|i: int| 0 <= i < template_of(path).len() && var_of(seg_of(#[trigger] template_of(path)[i])) == Some(y)
}
pub open spec fn is_handler_path_param(ps: Seq<ApiEndpointParameter>, y: String) -> bool {
    exists|i: int| 0 <= i < ps.len() && path_name((#[trigger] ps[i]).metadata) == Some(y)
}
/// accepted iff the two sets of names are the same
pub open spec fn path_parameters_ok<C: ServerContext>(e: ApiEndpoint<C>) -> bool {
    forall|y: String| is_template_var(e.path@, y) <==> is_handler_path_param(e.parameters@, y)
}

// ---- CHECKED: C02 "a name used as both path and query parameter, a non-scalar path or query parameter" ----
/// the template declares `n` as a single-segment variable / as a trailing wildcard
pub open spec fn is_segment_var(path: Seq<char>, n: String) -> bool {
    exists|i: int| 0 <= i < template_of(path).len() && seg_of(#[trigger] template_of(path)[i]) == PathSegment::VarnameSegment(n)
}
pub open spec fn is_wildcard_var(path: Seq<char>, n: String) -> bool {
    exists|i: int| 0 <= i < template_of(path).len() && seg_of(#[trigger] template_of(path)[i]) == PathSegment::VarnameWildcard(n)
}
/// the (pre-generated) schema of a named parameter: scalar / list of strings, as type_util.rs decides
pub open spec fn param_is_scalar(p: ApiEndpointParameter) -> bool {
    p.schema is Static && scalar_schema(*p.schema->Static_schema, p.schema->Static_dependencies)
}
pub open spec fn param_is_string_list(p: ApiEndpointParameter) -> bool {
    p.schema is Static && string_enum_schema(*p.schema->Static_schema, p.schema->Static_dependencies)
}
/// what one parameter must satisfy.  (If one name were declared both as a single segment and as a wildcard -- which
/// HttpRouter::insert rejects later as a repeated name -- either declaration may be the one consulted.)
pub open spec fn named_param_must(path: Seq<char>, p: ApiEndpointParameter) -> bool {
    match p.metadata {
        ApiEndpointParameterMetadata::Path(n) =>
            (is_segment_var(path, n) && !is_wildcard_var(path, n) ==> param_is_scalar(p))
            && (is_wildcard_var(path, n) && !is_segment_var(path, n) ==> param_is_string_list(p))
            && (param_is_scalar(p) || param_is_string_list(p)),
        ApiEndpointParameterMetadata::Query(n) => !is_template_var(path, n) && param_is_scalar(p),
        _ => true,
    }
}
pub open spec fn named_param_may(path: Seq<char>, p: ApiEndpointParameter) -> bool {
    match p.metadata {
        ApiEndpointParameterMetadata::Path(n) =>
            (is_segment_var(path, n) ==> param_is_scalar(p)) && (is_wildcard_var(path, n) ==> param_is_string_list(p)),
        ApiEndpointParameterMetadata::Query(n) => !is_template_var(path, n) && param_is_scalar(p),
        _ => true,
    }
}
/// precondition (an invariant of how endpoints are built, not checked by registration): path and query parameters
/// carry pre-generated schemas ("Only body parameters should have unresolved schemas")
pub open spec fn named_params_have_static_schemas(ps: Seq<ApiEndpointParameter>) -> bool {
    forall|i: int| 0 <= i < ps.len() && !((#[trigger] ps[i]).metadata is Body) ==> ps[i].schema is Static
}
/// the decision of validate_named_parameters: between `must` (necessary) and `may` (sufficient); the two coincide
/// whenever no name is declared both ways
pub open spec fn named_parameters_ok<C: ServerContext>(e: ApiEndpoint<C>) -> bool {
    forall|i: int| 0 <= i < e.parameters@.len() ==> named_param_must(e.path@, #[trigger] e.parameters@[i])
}

proof fn sentinel_key_model_consistent()
    ensures false
{
    broadcast use vstd::std_specs::hash::group_hash_axioms, axiom_string_obeys_key_model;
}
proof fn sentinel_tags_ok_not_trivial<C: ServerContext>(d: ApiDescription<C>, e: ApiEndpoint<C>)
    ensures tags_ok(d, e)
{}
