// ---- CHECKED: the tag policy, from the statement of C02 ("tags that violate the tag policy") ----
pub open spec fn policy_ok(p: EndpointTagPolicy, ntags: nat) -> bool {
    match p {
        EndpointTagPolicy::Any => true,
        EndpointTagPolicy::AtLeastOne => ntags >= 1,
        EndpointTagPolicy::ExactlyOne => ntags == 1,
    }
}
/// an endpoint satisfies the description's tag configuration
pub open spec fn tags_ok<C: ServerContext>(d: ApiDescription<C>, e: ApiEndpoint<C>) -> bool {
    !e.visible || (
        policy_ok(d.tag_config.policy, e.tags@.len())
        && (d.tag_config.allow_other_tags
            || forall|i: int| 0 <= i < e.tags@.len() ==> d.tag_config.tags@.contains_key(#[trigger] e.tags@[i]))
    )
}
proof fn sentinel_key_model_consistent()
    ensures false
{
    broadcast use vstd::std_specs::hash::group_hash_axioms, axiom_string_obeys_key_model;
}
proof fn sentinel_tags_ok_not_trivial<C: ServerContext>(d: ApiDescription<C>, e: ApiEndpoint<C>)
    ensures tags_ok(d, e)
{}
