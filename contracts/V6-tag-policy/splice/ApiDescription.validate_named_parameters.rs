//@ ret r
//@ contract
        requires
            path_parameters_ok(*e),                             // validate_path_parameters has accepted (it runs first)
            named_params_have_static_schemas(e.parameters@),
        ensures
            r is Ok ==> named_parameters_ok(*e), // @accepted_only_if_no_path_query_clash_and_every_named_parameter_has_the_right_shape
            (forall|i: int| 0 <= i < e.parameters@.len() ==> named_param_may(e.path@, #[trigger] e.parameters@[i])) ==> r is Ok, // @an_endpoint_without_these_conflicts_is_accepted
//@ body_start
        broadcast use ax_string_obeys_cmp;
//@ closure 0
|segment: &&str| -> (o: Option<(String, SegmentOrWildcard)>) ensures o == (match seg_of(segment@) { PathSegment::VarnameSegment(v) => Some((v, SegmentOrWildcard::Segment)), PathSegment::VarnameWildcard(v) => Some((v, SegmentOrWildcard::Wildcard)), PathSegment::Literal(_) => None::<(String, SegmentOrWildcard)> })
//@ attrs
#[verifier::exec_allows_no_decreases_clause]
//@ before "while let Some(param)" 0
        let ghost mut k: int = 0;
//@ loop 0 invariant
            invariant
                0 <= k <= e.parameters@.len(),
                IteratorSpec::remaining(&params_it).len() == e.parameters@.len() - k,
                forall|i: int| 0 <= i < e.parameters@.len() - k ==> *IteratorSpec::remaining(&params_it)[i] == e.parameters@[k + i],
                path_parameters_ok(*e),
                named_params_have_static_schemas(e.parameters@),
                forall|n: String| #[trigger] path_segments@.contains_key(n) ==> (match path_segments@[n] { SegmentOrWildcard::Segment => is_segment_var(e.path@, n), SegmentOrWildcard::Wildcard => is_wildcard_var(e.path@, n) }),
                forall|n: String| is_template_var(e.path@, n) ==> #[trigger] path_segments@.contains_key(n),
                forall|j: int| 0 <= j < k ==> named_param_must(e.path@, #[trigger] e.parameters@[j]), // @inv_parameters_checked_so_far_are_fine
            ensures
                k == e.parameters@.len(),
//@ loop 0 body_start
            broadcast use ax_string_obeys_cmp;
            assert(*param == e.parameters@[k]);
            let ghost k0 = k;
            proof { k = k + 1; }
