//@ ret r
//@ contract
        ensures r.allow_other_tags, r.policy == EndpointTagPolicy::Any, // @default_config_accepts_everything
