//@ ret r
//@ contract
        ensures
            r is Ok ==> tags_ok(*self, *e), // @accepted_only_if_policy_satisfied
            tags_ok(*self, *e) ==> r is Ok, // @policy_satisfied_always_accepted
//@ body_start
        broadcast use vstd::std_specs::hash::group_hash_axioms, axiom_string_obeys_key_model;
//@ loop_iter 0 it
//@ loop 0 invariant
                invariant
                    e.visible, !self.tag_config.allow_other_tags, // @inv_path_facts
                    forall|i: int| 0 <= i < it.index@ ==> self.tag_config.tags@.contains_key(#[trigger] e.tags@[i]), // @inv_all_tags_so_far_are_configured
//@ loop 0 body_start
                broadcast use vstd::std_specs::hash::group_hash_axioms, axiom_string_obeys_key_model;
                assert(*tag == e.tags@[it.index@ as int]);
