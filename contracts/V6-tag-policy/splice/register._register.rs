//@ ret r
//@ contract
            requires
                named_params_have_static_schemas(e.parameters@),
            ensures
                r is Ok ==> tags_ok(*old(s), e) && path_parameters_ok(e) && named_parameters_ok(e), // @registered_only_if_all_validations_pass
                (tags_ok(*old(s), e) && path_parameters_ok(e)
                    && (forall|i: int| 0 <= i < e.parameters@.len() ==> named_param_may(e.path@, #[trigger] e.parameters@[i]))) ==> r is Ok, // @an_endpoint_without_these_conflicts_reaches_the_router
                r is Ok ==> final(s).router.routes@ == old(s).router.routes@.push(e), // @accepted_endpoint_is_inserted
                r is Err ==> final(s).router == old(s).router, // @rejected_endpoint_leaves_router_untouched
                final(s).tag_config == old(s).tag_config, // @tag_config_unchanged
