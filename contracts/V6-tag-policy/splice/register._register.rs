//@ ret r
//@ contract
            ensures
                (r is Ok) == (tags_ok(*old(s), e) && path_parameters_ok(e) && named_parameters_ok(e)), // @registered_iff_all_validations_pass
                r is Ok ==> final(s).router.routes@ == old(s).router.routes@.push(e), // @accepted_endpoint_is_inserted
                r is Err ==> final(s).router == old(s).router, // @rejected_endpoint_leaves_router_untouched
                final(s).tag_config == old(s).tag_config, // @tag_config_unchanged
