//@ ret r
//@ contract
        ensures (r is Ok) == path_parameters_ok(*e), // @accepted_iff_path_variables_are_exactly_the_handlers_path_parameters
//@ body_start
        broadcast use vstd::std_specs::hash::group_hash_axioms, axiom_string_obeys_key_model;
//@ closure 0
|segment: &&str| -> (o: Option<String>) ensures o == var_of(seg_of(segment@))
//@ closure 1
|p: &ApiEndpointParameter| -> (o: Option<String>) ensures o == path_name(p.metadata)
//@ after "collect_set();" 1
        proof {
            assert forall|y: String| path@.contains(y) <==> is_template_var(e.path@, y) by {
                if is_template_var(e.path@, y) {
                    let i = choose|i: int| 0 <= i < template_of(e.path@).len() && var_of(seg_of(#[trigger] template_of(e.path@)[i])) == Some(y);
                    assert(var_of(seg_of(template_of(e.path@)[i])) == Some(y));
                }
            }
            assert forall|y: String| vars@.contains(y) <==> is_handler_path_param(e.parameters@, y) by {
                if is_handler_path_param(e.parameters@, y) {
                    let i = choose|i: int| 0 <= i < e.parameters@.len() && path_name((#[trigger] e.parameters@[i]).metadata) == Some(y);
                    assert(path_name(e.parameters@[i].metadata) == Some(y));
                }
            }
            assert((path@ == vars@) == path_parameters_ok(*e)) by {
                if path_parameters_ok(*e) { assert(path@ =~= vars@); }
            }
        }
