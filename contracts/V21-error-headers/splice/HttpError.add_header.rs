//@ ret r
//@ contract
    ensures
        (r is Ok) == (name.name_text() is Some && value.value_text() is Some && !own_full(*old(self))),
        // the reference handed back IS the error (whatever the caller then does through it is what the error ends as)
        r is Ok ==> *final(self) == *final(r->Ok_0),
        // every header already on the error is KEPT and the new pair comes last
        r is Ok ==> own_headers(*(r->Ok_0)) == own_headers(*old(self)).push((name.name_text()->Some_0, value.value_text()->Some_0)),   // @add_header_keeps_earlier_values
        r is Ok ==> same_but_headers(*(r->Ok_0), *old(self)),          // @nothing_else_is_touched
        r is Err ==> own_headers(*final(self)) == own_headers(*old(self)) && same_but_headers(*final(self), *old(self)),   // @a_refused_header_changes_nothing
