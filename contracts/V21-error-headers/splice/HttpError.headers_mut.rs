//@ ret r
//@ contract
    ensures
        final(self).headers == Some(Box::new(*final(r))),
        hm_view(*r) == own_headers(*old(self)),                        // @existing_headers_are_what_the_caller_gets
        hm_full(*r) == own_full(*old(self)),
        same_but_headers(*final(self), *old(self)),                    // @nothing_else_is_touched
//@ closure 0
|| -> (b: Box<HeaderMap>) ensures hm_view(*b).len() == 0
//@ body_start
    broadcast use ax_empty_not_full;
