//@ ret r
//@ contract
    ensures
        (r is Ok) == (name.name_text() is Some && value.value_text() is Some && !own_full(self)),
        r is Ok ==> own_headers(r->Ok_0) == own_headers(self).push((name.name_text()->Some_0, value.value_text()->Some_0)),   // @with_header_keeps_earlier_values
        r is Ok ==> same_but_headers(r->Ok_0, self),                   // @nothing_else_is_touched
