use vstd::prelude::*;
use vstd::std_specs::cmp::*;
//@ items
//@ include ../_common/prelude_http.rs
//@ include ../_common/prelude_error.rs

// ---- TRUSTED (V21) ----
/// http::Error and http::header::MaxSizeReached: opaque; only Ok/Err-ness matters here
#[verifier::external_body]
#[derive(Debug)]
pub struct HttpLibError { _p: u8 }
#[verifier::external_body]
#[derive(Debug)]
pub struct MaxSizeReached { _p: u8 }
impl From<MaxSizeReached> for HttpLibError {
    #[verifier::external_body]
    fn from(e: MaxSizeReached) -> Self { unimplemented!() }
}
/// `HeaderName: TryFrom<K>` with `Error: Into<http::Error>` (W1): what K converts to, if it converts
pub trait TryIntoHeaderName: Sized {
    spec fn name_text(self) -> Option<Seq<char>>;
    fn try_into_name(self) -> (r: Result<HeaderName, HttpLibError>)
        ensures (r is Ok) == (self.name_text() is Some), r is Ok ==> r->Ok_0.name@ == self.name_text()->Some_0;
}
/// `HeaderValue: TryFrom<V>` with `Error: Into<http::Error>` (W1)
pub trait TryIntoHeaderValue: Sized {
    spec fn value_text(self) -> Option<Seq<char>>;
    fn try_into_value(self) -> (r: Result<HeaderValue, HttpLibError>)
        ensures (r is Ok) == (self.value_text() is Some), r is Ok ==> hv_view(r->Ok_0) == self.value_text()->Some_0;
}
/// the instance lookup_route uses: (http::header::ALLOW, &String)
impl TryIntoHeaderName for HeaderName {
    open spec fn name_text(self) -> Option<Seq<char>> { Some(self.name@) }
    #[verifier::external_body]
    fn try_into_name(self) -> (r: Result<HeaderName, HttpLibError>) { unimplemented!() }
}
impl TryIntoHeaderValue for &String {
    open spec fn value_text(self) -> Option<Seq<char>> { if header_value_ok(self@) { Some(self@) } else { None } }
    #[verifier::external_body]
    fn try_into_value(self) -> (r: Result<HeaderValue, HttpLibError>) { unimplemented!() }
}
/// HeaderMap::try_append / try_insert fail only when the map already holds its maximum (32768) of entries
pub uninterp spec fn hm_full(h: HeaderMap) -> bool;
impl HeaderMap {
    /// try_append: adds a value and KEEPS whatever is already stored under `name`
    #[verifier::external_body]
    pub fn try_append(&mut self, name: HeaderName, v: HeaderValue) -> (r: Result<bool, MaxSizeReached>)
        ensures (r is Ok) == !hm_full(*old(self)),
            r is Ok ==> hm_view(*final(self)) == hm_view(*old(self)).push((name.name@, hv_view(v))),
            r is Err ==> hm_view(*final(self)) == hm_view(*old(self)),
    { unimplemented!() }
    /// try_insert: REPLACES every value stored under `name`
    #[verifier::external_body]
    pub fn try_insert(&mut self, name: HeaderName, v: HeaderValue) -> (r: Result<Option<HeaderValue>, MaxSizeReached>)
        ensures (r is Ok) == !hm_full(*old(self)),
            r is Ok ==> hm_view(*final(self)) == hm_without(hm_view(*old(self)), name.name@).push((name.name@, hv_view(v))),
            r is Err ==> hm_view(*final(self)) == hm_view(*old(self)),
    { unimplemented!() }
}
/// Option::get_or_insert_with (no vstd contract): Some stays as it is, None becomes Some(f())
pub assume_specification<T, F: FnOnce() -> T>[ Option::<T>::get_or_insert_with ](o: &mut Option<T>, f: F) -> (r: &mut T)
    requires *old(o) is None ==> f.requires(()),
    ensures *final(o) == Some(*final(r)),
        *old(o) is Some ==> *r == (*old(o))->Some_0,
        *old(o) is None ==> f.ensures((), *r);
