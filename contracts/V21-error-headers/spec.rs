/// the headers an HttpError carries itself, in emission order (none: no map allocated yet)
pub open spec fn own_headers(e: HttpError) -> Seq<(Seq<char>, Seq<char>)> {
    match e.headers { Some(h) => hm_view(*h), None => Seq::empty() }
}
pub open spec fn own_full(e: HttpError) -> bool {
    match e.headers { Some(h) => hm_full(*h), None => false }
}
pub open spec fn same_but_headers(a: HttpError, b: HttpError) -> bool {
    a.status_code == b.status_code && a.error_code == b.error_code
        && a.external_message == b.external_message && a.internal_message == b.internal_message
}
/// an empty map is not full
pub broadcast axiom fn ax_empty_not_full(h: HeaderMap)
    ensures hm_view(h).len() == 0 ==> !#[trigger] hm_full(h);
