// ---- following references: what type_resolve returns when it returns ----
/// a schema that is nothing but a reference
pub open spec fn is_pure_ref(s: JSchema) -> bool {
    s matches JSchema::Object(o) && o.instance_type is None && o.format is None && o.enum_values is None && o.const_value is None
        && o.subschemas is None && o.number is None && o.string is None && o.array is None && o.object is None && o.reference is Some
}
/// one step: the schema a pure reference names (anything else stays)
pub open spec fn ref_step(s: JSchema, d: SchemaDeps) -> JSchema {
    if is_pure_ref(s) { match deps_lookup(d, s->Object_0.reference->Some_0@) { Some(t) => t, None => s } } else { s }
}
pub open spec fn follow(s: JSchema, d: SchemaDeps, n: nat) -> JSchema
    decreases n
{
    if n == 0 { s } else { ref_step(follow(s, d, (n - 1) as nat), d) }
}
/// the first schema along the chain of references that is not itself a pure reference, if there is one (else: the
/// function does not return, and `resolved` is whatever `choose` picks -- never used then)
pub open spec fn ends_at(s: JSchema, d: SchemaDeps, n: nat) -> bool {
    !is_pure_ref(follow(s, d, n)) && forall|k: nat| k < n ==> is_pure_ref(#[trigger] follow(s, d, k))
}
pub open spec fn resolved(s: JSchema, d: SchemaDeps) -> JSchema {
    follow(s, d, choose|n: nat| ends_at(s, d, n))
}
pub proof fn ends_at_unique(s: JSchema, d: SchemaDeps, n: nat, m: nat)
    requires ends_at(s, d, n), ends_at(s, d, m),
    ensures n == m
{
    if n < m { assert(is_pure_ref(follow(s, d, n))); }
    if m < n { assert(is_pure_ref(follow(s, d, m))); }
}

// ---- which schemas count as scalar, as type_util.rs documents it ("Returns true iff the input schema is a boolean,
// floating-point number, string or integer"; "For allOf and anyOf subschemas, we proceed only if there is a lone
// subschema which we check recursively. For oneOf subschemas, we check that each subschema is scalar") ----
pub type Check = spec_fn(InstanceType) -> bool;
/// a plain value of an accepted instance type: no subschemas, not an array, not an object, not a reference
pub open spec fn leaf_ok(o: SchemaObject, chk: Check) -> bool {
    o.instance_type matches Some(SingleOrVec::Single(t)) && o.subschemas is None && o.array is None && o.object is None
        && o.reference is None && chk(*t)
}
/// nothing but a combination of subschemas
pub open spec fn only_subschemas(o: SchemaObject) -> bool {
    o.instance_type is None && o.format is None && o.enum_values is None && o.const_value is None && o.subschemas is Some
        && o.number is None && o.string is None && o.array is None && o.object is None && o.reference is None
}
pub open spec fn nothing_but(v: SubschemaValidation, all_of: bool, any_of: bool, one_of: bool) -> bool {
    (v.all_of is Some) == all_of && (v.any_of is Some) == any_of && (v.one_of is Some) == one_of
        && v.not is None && v.if_schema is None && v.then_schema is None && v.else_schema is None
}
/// TRUSTED as a definition: `scalar_ok` is the (least) solution of the equation stated by ax_scalar_ok -- the
/// recursion goes through `resolved`, which is not structural, so it cannot be written as a terminating spec fn
pub uninterp spec fn scalar_ok(s: JSchema, d: SchemaDeps, chk: Check) -> bool;
pub open spec fn subs_ok(v: SubschemaValidation, d: SchemaDeps, chk: Check) -> bool {
    if nothing_but(v, true, false, false) { v.all_of->Some_0@.len() == 1 && scalar_ok(v.all_of->Some_0@[0], d, chk) }
    else if nothing_but(v, false, true, false) { v.any_of->Some_0@.len() == 1 && scalar_ok(v.any_of->Some_0@[0], d, chk) }
    else if nothing_but(v, false, false, true) { forall|i: int| 0 <= i < v.one_of->Some_0@.len() ==> scalar_ok(#[trigger] v.one_of->Some_0@[i], d, chk) }
    else { false }
}
pub axiom fn ax_scalar_ok(s: JSchema, d: SchemaDeps, chk: Check)
    ensures scalar_ok(s, d, chk) == (match resolved(s, d) {
        JSchema::Object(o) => leaf_ok(o, chk) || (only_subschemas(o) && subs_ok(*o.subschemas->Some_0, d, chk)),
        JSchema::Bool(_) => false,
    });
/// the exec predicate on instance types computes the spec predicate `chk`
pub open spec fn agrees<F: Fn(&InstanceType) -> bool>(f: F, chk: Check) -> bool {
    forall|t: &InstanceType, b: bool| call_ensures(f, (t,), b) ==> b == chk(*t)
}
pub open spec fn scalar_type(t: InstanceType) -> bool { t is Boolean || t is Number || t is String || t is Integer }
/// the schema of a wildcard path parameter: an array whose items are strings (and nothing else said about it)
pub open spec fn array_shape(o: SchemaObject) -> bool {
    o.instance_type matches Some(SingleOrVec::Single(t)) && *t is Array && o.format is None && o.enum_values is None && o.const_value is None
        && o.subschemas is None && o.number is None && o.string is None && o.array is Some && o.object is None && o.reference is None
}
/// "an invalid array type": the code panics on it
pub open spec fn plain_item_array(a: ArrayValidation) -> bool {
    a.items matches Some(SingleOrVec::Single(_)) && a.additional_items is None
}
pub open spec fn string_list_ok(s: JSchema, d: SchemaDeps) -> bool {
    match resolved(s, d) {
        JSchema::Object(o) => array_shape(o) && plain_item_array(*o.array->Some_0)
            && scalar_ok(*(o.array->Some_0.items->Some_0->Single_0), d, |t: InstanceType| t is String),
        JSchema::Bool(_) => false,
    }
}
