//@ ret r
//@ contract
    ensures (r is Ok) == scalar_ok(*schema, *dependencies, |t: InstanceType| t is String),     // @string_means_string
//@ closure 0
|instance_type: &InstanceType| -> (b: bool) ensures b == (*instance_type is String)
