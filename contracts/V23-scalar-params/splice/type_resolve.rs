//@ attrs
#[verifier::exec_allows_no_decreases_clause]
//@ ret r
//@ contract
    ensures *r == resolved(*schema, *dependencies),      // @the_first_schema_along_the_references_that_is_not_a_pure_reference
        !is_pure_ref(*r),
//@ body_start
    let ghost s0 = *schema;
    let ghost mut n: nat = 0;
//@ loop 0 header
[depth=0] while let
//@ loop 0 invariant
        invariant *schema == follow(s0, *dependencies, n), forall|k: nat| k < n ==> is_pure_ref(#[trigger] follow(s0, *dependencies, k)),
        ensures !is_pure_ref(*schema), ends_at(s0, *dependencies, n),
//@ loop 0 body_end
        proof {
            n = n + 1;
        }
