//@ ret r
//@ contract
    requires
        // otherwise the function panics ("the parameter has an invalid array type")
        resolved(*schema, *dependencies) matches JSchema::Object(o) ==> (array_shape(o) ==> plain_item_array(*o.array->Some_0)),
    ensures (r is Ok) == string_list_ok(*schema, *dependencies),     // @accepted_iff_an_array_of_strings
//@ closure 0
|_e: String| -> (m: String)
