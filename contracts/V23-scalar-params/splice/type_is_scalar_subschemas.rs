//@ attrs
#[verifier::exec_allows_no_decreases_clause]
//@ ret r
//@ contract
    requires forall|t: &InstanceType| call_requires(type_check, (t,)),
    ensures forall|chk: Check| agrees(type_check, chk) ==> r == #[trigger] subs_ok(*subschemas, *dependencies, chk),     // @lone_allof_anyof_alternative_or_every_oneof_alternative
//@ closure 0
|schema: &JSchema| -> (b: bool) ensures forall|chk: Check| agrees(type_check, chk) ==> b == #[trigger] scalar_ok(*schema, *dependencies, chk)
