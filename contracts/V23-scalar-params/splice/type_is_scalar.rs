//@ ret r
//@ contract
    ensures (r is Ok) == scalar_ok(*schema, *dependencies, |t: InstanceType| scalar_type(t)),     // @scalar_means_boolean_number_string_or_integer
//@ closure 0
|instance_type: &InstanceType| -> (b: bool) ensures b == scalar_type(*instance_type)
