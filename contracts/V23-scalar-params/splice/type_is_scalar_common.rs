//@ attrs
#[verifier::exec_allows_no_decreases_clause]
//@ ret r
//@ contract
    requires forall|t: &InstanceType| call_requires(type_check, (t,)),
    ensures forall|chk: Check| agrees(type_check, chk) ==> (r is Ok) == #[trigger] scalar_ok(*schema, *dependencies, chk),     // @accepted_iff_scalar_as_documented
//@ body_start
    proof {
        assert forall|chk: Check| true implies #[trigger] scalar_ok(*schema, *dependencies, chk) == (match resolved(*schema, *dependencies) {
            JSchema::Object(o) => leaf_ok(o, chk) || (only_subschemas(o) && subs_ok(*o.subschemas->Some_0, *dependencies, chk)),
            JSchema::Bool(_) => false,
        }) by { ax_scalar_ok(*schema, *dependencies, chk); }
    }
