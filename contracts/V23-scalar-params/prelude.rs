use vstd::prelude::*;
use vstd::std_specs::cmp::*;
//@ items
//@ include ../_common/prelude_schema.rs

// ---- TRUSTED (V23) ----
/// IndexMap<String, Schema>: the named schemas a parameter's schema may refer to; reached only through type_resolve
#[verifier::external_body]
pub struct SchemaDeps { _p: u8 }
/// type_resolve (a loop that follows pure `$ref` schemas through the dependencies, with cycle detection; it panics
/// on a cycle or a dangling reference): the schema the references lead to
pub uninterp spec fn resolved(s: JSchema, d: SchemaDeps) -> JSchema;
#[verifier::external_body]
pub fn type_resolve<'a>(schema: &'a JSchema, dependencies: &'a SchemaDeps) -> (r: &'a JSchema)
    ensures *r == resolved(*schema, *dependencies)
{ unimplemented!() }
/// `slice.iter().all(f)` (W1: written as a function call): true iff f returned true on every element (f is evaluated
/// until it first returns false)
#[verifier::external_body]
pub fn slice_all<T, G: Fn(&T) -> bool>(s: &Vec<T>, f: G) -> (r: bool)
    requires forall|x: &T| call_requires(f, (x,)),
    ensures
        r ==> forall|i: int| 0 <= i < s@.len() ==> call_ensures(f, (&s@[i],), true),
        !r ==> exists|i: int| 0 <= i < s@.len() && call_ensures(f, (&s@[i],), false),
{ unimplemented!() }
/// `slice.iter().any(f)`: true iff f returned true on some element
#[verifier::external_body]
pub fn slice_any<T, G: Fn(&T) -> bool>(s: &Vec<T>, f: G) -> (r: bool)
    requires forall|x: &T| call_requires(f, (x,)),
    ensures
        r ==> exists|i: int| 0 <= i < s@.len() && call_ensures(f, (&s@[i],), true),
        !r ==> forall|i: int| 0 <= i < s@.len() ==> call_ensures(f, (&s@[i],), false),
{ unimplemented!() }
#[verifier::external_body]
pub fn fmt_opaque() -> String { unimplemented!() }
/// the derived PartialEq of the field-less enum InstanceType: equality of variants
impl PartialEq for InstanceType {
    #[verifier::external_body]
    fn eq(&self, other: &Self) -> (r: bool) ensures r == (*self == *other) { unimplemented!() }
}
