use vstd::prelude::*;
use vstd::std_specs::cmp::*;
//@ items
//@ include ../_common/prelude_schema.rs

// ---- TRUSTED (V23) ----
/// IndexMap<String, Schema>: the named schemas a parameter's schema may refer to; reached only through type_resolve
#[verifier::external_body]
pub struct SchemaDeps { _p: u8 }
/// IndexMap<String, Schema>::get(&reference[PREFIX.len()..]): the schema a reference names in the dependency map, if any
pub uninterp spec fn deps_lookup(d: SchemaDeps, reference: Seq<char>) -> Option<JSchema>;
/// `dependencies.get(&ref_schema[PREFIX.len()..]).unwrap_or_else(|| panic!(..))` (W1): the schema the reference names;
/// a dangling reference panics (no result)
#[verifier::external_body]
pub fn deps_get_or_panic<'a>(dependencies: &'a SchemaDeps, ref_schema: &String) -> (r: &'a JSchema)
    ensures deps_lookup(*dependencies, ref_schema@) == Some(*r)
{ unimplemented!() }
/// `ref_schema.starts_with("#/components/schemas/")`: only guards an `assert!` (a foreign prefix panics: no result)
#[verifier::external_body]
pub fn has_schema_prefix(s: &String) -> bool { unimplemented!() }
/// the HashSet<&String> of references already followed: only decides whether the function panics on a cycle
#[verifier::external_body]
pub struct RefSet { _p: u8 }
impl RefSet {
    #[verifier::external_body] pub fn new() -> RefSet { unimplemented!() }
    #[verifier::external_body] pub fn contains(&self, s: &String) -> bool { unimplemented!() }
    #[verifier::external_body] pub fn insert(&mut self, s: &String) -> bool { unimplemented!() }
}
/// W9b: the panics of type_resolve (cycle, dangling or foreign reference): the function does not return
#[verifier::external_body]
pub fn never_returns() -> ! { panic!() }
/// `slice.iter().all(f)` (W1: written as a function call): true iff f returned true on every element (f is evaluated
/// until it first returns false)
#[verifier::external_body]
pub fn slice_all<T, G: Fn(&T) -> bool>(s: &Vec<T>, f: G) -> (r: bool)
    requires forall|x: &T| call_requires(f, (x,)),
    ensures
        r ==> forall|i: int| 0 <= i < s@.len() ==> call_ensures(f, (&s@[i],), true),
        !r ==> exists|i: int| 0 <= i < s@.len() && call_ensures(f, (&s@[i],), false),
{ unimplemented!() }
/// `slice.iter().any(f)`: true iff f returned true on some element
#[verifier::external_body]
pub fn slice_any<T, G: Fn(&T) -> bool>(s: &Vec<T>, f: G) -> (r: bool)
    requires forall|x: &T| call_requires(f, (x,)),
    ensures
        r ==> exists|i: int| 0 <= i < s@.len() && call_ensures(f, (&s@[i],), true),
        !r ==> forall|i: int| 0 <= i < s@.len() ==> call_ensures(f, (&s@[i],), false),
{ unimplemented!() }
#[verifier::external_body]
pub fn fmt_opaque() -> String { unimplemented!() }
/// the derived PartialEq of the field-less enum InstanceType: equality of variants
impl PartialEq for InstanceType {
    #[verifier::external_body]
    fn eq(&self, other: &Self) -> (r: bool) ensures r == (*self == *other) { unimplemented!() }
}
