// ---- CHECKED ----
/// C03: a piece of the path that may be delivered: it percent-decodes to valid UTF-8 that is neither '.' nor '..'
pub open spec fn acceptable(piece: Seq<char>) -> bool {
    pct_decode(piece) is Some && pct_decode(piece)->Some_0 != "."@ && pct_decode(piece)->Some_0 != ".."@
}
/// the non-empty pieces between slashes, in order ("repeated or trailing slashes" only add empty pieces)
pub open spec fn is_kept<'a>() -> spec_fn(&'a str) -> bool { |p: &'a str| p@.len() > 0 }
pub open spec fn kept_pieces<'a>(path: &'a str) -> Seq<&'a str> {
    slash_strs(path).filter(is_kept())
}

pub open spec fn first_slash(s: Seq<char>) -> int
    decreases s.len()
{
    if s.len() == 0 { -1 } else if s[0] == '/' { 0 } else { let r = first_slash(s.skip(1)); if r < 0 { -1 } else { r + 1 } }
}
pub proof fn first_slash_props(s: Seq<char>)
    ensures
        first_slash(s) < s.len(),
        first_slash(s) >= 0 ==> s[first_slash(s)] == '/' && forall|j: int| 0 <= j < first_slash(s) ==> s[j] != '/',
        first_slash(s) < 0 ==> forall|j: int| 0 <= j < s.len() ==> s[j] != '/',
    decreases s.len()
{
    if s.len() > 0 && s[0] != '/' {
        first_slash_props(s.skip(1));
        let r = first_slash(s.skip(1));
        if r >= 0 {
            assert(s.skip(1)[r] == s[r + 1]);
            assert forall|j: int| 0 <= j < r + 1 implies s[j] != '/' by { if j > 0 { assert(s.skip(1)[j - 1] == s[j]); } }
        } else {
            assert forall|j: int| 0 <= j < s.len() implies s[j] != '/' by { if j > 0 { assert(s.skip(1)[j - 1] == s[j]); } }
        }
    }
}
/// str::split('/') on the characters: the pieces between slashes
pub open spec fn slash_split(s: Seq<char>) -> Seq<Seq<char>>
    decreases s.len()
    via slash_split_dec
{
    let i = first_slash(s);
    if i < 0 { seq![s] } else { seq![s.subrange(0, i)] + slash_split(s.subrange(i + 1, s.len() as int)) }
}
#[via_fn]
proof fn slash_split_dec(s: Seq<char>) {
    first_slash_props(s);
}
/// the pieces of `a/b` are the pieces of `a` followed by the pieces of `b`
pub proof fn split_of_joined(a: Seq<char>, b: Seq<char>)
    ensures slash_split(a + seq!['/'] + b) == slash_split(a) + slash_split(b)
    decreases a.len()
{
    let s = a + seq!['/'] + b;
    first_slash_props(a);
    first_slash_props(s);
    let i = first_slash(a);
    if i < 0 {
        // the first slash of s is the joining one
        assert(s[a.len() as int] == '/');
        assert(forall|j: int| 0 <= j < a.len() ==> s[j] == a[j]);
        let k = first_slash(s);
        assert(k == a.len()) by {
            if k < 0 { assert(s[a.len() as int] != '/'); }
            if 0 <= k < a.len() { assert(a[k] == '/'); }
            if k > a.len() { assert(s[a.len() as int] != '/'); }
        }
        assert(s.subrange(0, k) =~= a);
        assert(s.subrange(k + 1, s.len() as int) =~= b);
    } else {
        let k = first_slash(s);
        assert(forall|j: int| 0 <= j < a.len() ==> s[j] == a[j]);
        assert(k == i) by {
            assert(s[i] == '/');
            if k < 0 { assert(s[i] != '/'); }
            if 0 <= k < i { assert(a[k] == '/'); }
            if k > i { assert(s[i] != '/'); }
        }
        let a2 = a.subrange(i + 1, a.len() as int);
        assert(s.subrange(0, k) =~= a.subrange(0, i));
        assert(s.subrange(k + 1, s.len() as int) =~= a2 + seq!['/'] + b);
        split_of_joined(a2, b);
        assert(slash_split(s) == seq![a.subrange(0, i)] + (slash_split(a2) + slash_split(b)));
        assert(seq![a.subrange(0, i)] + (slash_split(a2) + slash_split(b)) =~= (seq![a.subrange(0, i)] + slash_split(a2)) + slash_split(b));
    }
}

/// the non-empty pieces, on the characters
pub open spec fn is_kept_text() -> spec_fn(Seq<char>) -> bool { |p: Seq<char>| p.len() > 0 }
pub open spec fn kept_text(s: Seq<char>) -> Seq<Seq<char>> { slash_split(s).filter(is_kept_text()) }

/// C03 "Paths that differ only by repeated or trailing slashes are treated identically": the non-empty pieces of
/// `a/b` are those of `a` followed by those of `b` -- so an extra slash next to a slash, or at either end, adds
/// nothing (it only adds an empty piece, which is dropped)
pub proof fn kept_of_joined(a: Seq<char>, b: Seq<char>)
    ensures kept_text(a + seq!['/'] + b) == kept_text(a) + kept_text(b) // @nonempty_pieces_of_a_slash_b
{
    split_of_joined(a, b);
    Seq::filter_distributes_over_add(slash_split(a), slash_split(b), is_kept_text());
}
pub proof fn kept_of_empty()
    ensures kept_text(Seq::<char>::empty()) == Seq::<Seq<char>>::empty()
{
    let e = Seq::<char>::empty();
    assert(first_slash(e) == -1);
    assert(slash_split(e) == seq![e]);
    reveal_with_fuel(Seq::filter, 2);
    assert(seq![e].drop_last() =~= Seq::<Seq<char>>::empty());
}
pub proof fn repeated_and_trailing_slashes_do_not_matter(a: Seq<char>, b: Seq<char>)
    ensures
        kept_text(a + seq!['/'] + seq!['/'] + b) == kept_text(a + seq!['/'] + b), // @a_repeated_slash_changes_nothing
        kept_text(a + seq!['/']) == kept_text(a), // @a_trailing_slash_changes_nothing
        kept_text(seq!['/'] + a) == kept_text(a), // @a_leading_slash_changes_nothing
{
    let e = Seq::<char>::empty();
    kept_of_empty();
    // a//b  =  (a/"") / b
    kept_of_joined(a + seq!['/'] + e, b);
    kept_of_joined(a, e);
    kept_of_joined(a, b);
    assert(a + seq!['/'] + e =~= a + seq!['/']);
    assert(kept_text(a) + Seq::<Seq<char>>::empty() =~= kept_text(a));
    // "/" + a = "" / a
    kept_of_joined(e, a);
    assert(e + seq!['/'] + a =~= seq!['/'] + a);
    assert(Seq::<Seq<char>>::empty() + kept_text(a) =~= kept_text(a));
}
/// the pieces the function works on (as `&str`s) are these pieces (TRUSTED link: prelude axiom ax_split_is_slash_split)
pub proof fn kept_pieces_are_the_nonempty_pieces<'a>(path: &'a str)
    ensures texts(kept_pieces(path)) == kept_text(path@) // @the_function_keeps_exactly_the_nonempty_pieces
{
    ax_split_is_slash_split(path);
    texts_of_filtered(slash_strs(path));
}
pub proof fn texts_of_filtered<'a>(ps: Seq<&'a str>)
    ensures texts(ps.filter(is_kept())) == texts(ps).filter(is_kept_text())
    decreases ps.len()
{
    reveal_with_fuel(Seq::filter, 2);
    if ps.len() == 0 {
        assert(texts(ps.filter(is_kept())) =~= texts(ps).filter(is_kept_text()));
    } else {
        texts_of_filtered(ps.drop_last());
        assert(texts(ps).drop_last() =~= texts(ps.drop_last()));
        assert(texts(ps).last() == ps.last()@);
        assert(texts(ps.filter(is_kept())) =~= texts(ps).filter(is_kept_text()));
    }
}


/// the contract of input_path_to_segments (splice/input_path_to_segments.rs), as a predicate
pub open spec fn segments_contract<'a>(path: &'a str, r: Result<Vec<String>, String>) -> bool {
    &&& (r is Ok) == (forall|i: int| 0 <= i < kept_pieces(path).len() ==> acceptable((#[trigger] kept_pieces(path)[i])@))
    &&& r is Ok ==> r->Ok_0@.len() == kept_pieces(path).len()
            && (forall|i: int| 0 <= i < r->Ok_0@.len() ==> pct_decode(kept_pieces(path)[i]@) == Some((#[trigger] r->Ok_0@[i])@))
}
/// C03, first sentence, end to end: two paths with the same non-empty pieces (e.g. differing only by repeated or
/// trailing slashes: repeated_and_trailing_slashes_do_not_matter) are both refused or both yield the same segments
pub proof fn same_nonempty_pieces_same_outcome<'a, 'b>(p: &'a str, q: &'b str, rp: Result<Vec<String>, String>, rq: Result<Vec<String>, String>)
    requires kept_text(p@) == kept_text(q@), segments_contract(p, rp), segments_contract(q, rq)
    ensures
        (rp is Ok) == (rq is Ok), // @treated_identically_refusal
        rp is Ok ==> rp->Ok_0@.len() == rq->Ok_0@.len() && forall|i: int| 0 <= i < rp->Ok_0@.len() ==> (#[trigger] rp->Ok_0@[i])@ == rq->Ok_0@[i]@, // @treated_identically_segments
{
    kept_pieces_are_the_nonempty_pieces(p);
    kept_pieces_are_the_nonempty_pieces(q);
    let kp = kept_pieces(p);
    let kq = kept_pieces(q);
    assert(texts(kp) == texts(kq));
    assert(kp.len() == kq.len()) by { assert(texts(kp).len() == texts(kq).len()); }
    assert forall|i: int| 0 <= i < kp.len() implies (#[trigger] kp[i])@ == kq[i]@ by {
        assert(texts(kp)[i] == texts(kq)[i]);
    }
    if rp is Ok {
        assert forall|i: int| 0 <= i < kq.len() implies acceptable((#[trigger] kq[i])@) by { assert(acceptable(kp[i]@)); }
        assert forall|i: int| 0 <= i < rp->Ok_0@.len() implies (#[trigger] rp->Ok_0@[i])@ == rq->Ok_0@[i]@ by {
            assert(pct_decode(kp[i]@) == Some(rp->Ok_0@[i]@));
            assert(pct_decode(kq[i]@) == Some(rq->Ok_0@[i]@));
        }
    }
    if rq is Ok {
        assert forall|i: int| 0 <= i < kp.len() implies acceptable((#[trigger] kp[i])@) by { assert(acceptable(kq[i]@)); }
    }
}

proof fn sentinel_v12_prelude_consistent()
    ensures false
{
    broadcast use ax_decode_of_plain_dots, ax_decode_of_nonempty;
}
proof fn sentinel_decode_not_total(s: Seq<char>)
    ensures pct_decode(s) is Some
{
    broadcast use ax_decode_of_plain_dots, ax_decode_of_nonempty;
}

// ---- route templates: "Paths must begin with a '/'; only the final segment may be empty" ----
pub proof fn split_has_a_piece(s: Seq<char>)
    ensures slash_split(s).len() >= 1
    decreases s.len()
{
    first_slash_props(s);
    let i = first_slash(s);
    if i >= 0 { split_has_a_piece(s.subrange(i + 1, s.len() as int)); }
}
pub proof fn split_of_leading_slash(s: Seq<char>)
    requires s.len() > 0, s[0] == '/',
    ensures slash_split(s).len() >= 2, slash_split(s)[0].len() == 0,
        slash_split(s) == seq![Seq::<char>::empty()] + slash_split(s.subrange(1, s.len() as int)),
{
    first_slash_props(s);
    split_has_a_piece(s.subrange(1, s.len() as int));
    assert(first_slash(s) == 0);
    assert(s.subrange(0, 0) =~= Seq::<char>::empty());
}
/// the pieces after the leading slash
pub open spec fn template_pieces(path: Seq<char>) -> Seq<Seq<char>> { slash_split(path).subrange(1, slash_split(path).len() as int) }
/// a template is malformed if it does not start with '/' or has an empty piece that is not the last
pub open spec fn malformed_template(path: Seq<char>) -> bool {
    !(path.len() > 0 && path[0] == '/')
        || exists|i: int| 0 <= i < template_pieces(path).len() - 1 && #[trigger] template_pieces(path)[i].len() == 0
}
/// its segments: the pieces after the leading slash, without a trailing empty piece
pub open spec fn template_segments(path: Seq<char>) -> Seq<Seq<char>> {
    let body = template_pieces(path);
    if body.last().len() == 0 { body.drop_last() } else { body }
}

// ---- one template segment: `{name}` is a variable, `{name:.*}` a trailing wildcard, anything without braces a
// literal (router.rs's documentation of route templates), over the std string functions the code uses ----
pub open spec fn braced(s: Seq<char>) -> bool { starts_with_c(s, '{') || ends_with_c(s, '}') }
pub open spec fn inner_of(s: Seq<char>) -> Seq<char> { range_of(s, 1, (byte_len(s) - 1) as usize) }
pub open spec fn var_name(s: Seq<char>) -> Seq<char> {
    match first_index_of(inner_of(s), ':') { Some(i) => prefix_to(inner_of(s), i), None => inner_of(s) }
}
pub open spec fn var_pattern(s: Seq<char>) -> Option<Seq<char>> {
    match first_index_of(inner_of(s), ':') { Some(i) => Some(suffix_from(inner_of(s), (i + 1) as usize)), None => None }
}
/// a segment with a brace that is not a well-formed variable: refused (by a panic)
pub open spec fn malformed_segment(s: Seq<char>) -> bool {
    braced(s) && (!starts_with_c(s, '{') || !ends_with_c(s, '}') || var_name(s).len() == 0
        || (var_pattern(s) is Some && var_pattern(s)->Some_0 != ".*"@))
}
pub enum SegKind { Literal, Variable, Wildcard }
pub open spec fn seg_kind(s: Seq<char>) -> SegKind {
    if !braced(s) { SegKind::Literal } else if var_pattern(s) is Some { SegKind::Wildcard } else { SegKind::Variable }
}
