// ---- CHECKED ----
proof fn sentinel_v12_prelude_consistent()
    ensures false
{
    broadcast use ax_decode_of_plain_dots, ax_decode_of_nonempty;
}
proof fn sentinel_decode_not_total(s: Seq<char>)
    ensures pct_decode(s) is Some
{
    broadcast use ax_decode_of_plain_dots, ax_decode_of_nonempty;
}
