// ---- CHECKED ----
/// C03: a piece of the path that may be delivered: it percent-decodes to valid UTF-8 that is neither '.' nor '..'
pub open spec fn acceptable(piece: Seq<char>) -> bool {
    pct_decode(piece) is Some && pct_decode(piece)->Some_0 != "."@ && pct_decode(piece)->Some_0 != ".."@
}
/// the non-empty pieces between slashes, in order ("repeated or trailing slashes" only add empty pieces)
pub open spec fn is_kept<'a>() -> spec_fn(&'a str) -> bool { |p: &'a str| p@.len() > 0 }
pub open spec fn kept_pieces<'a>(path: &'a str) -> Seq<&'a str> {
    slash_strs(path).filter(is_kept())
}

proof fn sentinel_v12_prelude_consistent()
    ensures false
{
    broadcast use ax_decode_of_plain_dots, ax_decode_of_nonempty;
}
proof fn sentinel_decode_not_total(s: Seq<char>)
    ensures pct_decode(s) is Some
{
    broadcast use ax_decode_of_plain_dots, ax_decode_of_nonempty;
}
