//@ ret r
//@ contract
    ensures
        // "A request whose path contains a '.' or '..' segment in any spelling ..., or a segment that is not valid
        //  UTF-8 after decoding, is answered 400" (the 400 is lookup_route's: V10) -- and nothing else is refused
        (r is Ok) == (forall|i: int| 0 <= i < kept_pieces(path.0).len() ==> acceptable((#[trigger] kept_pieces(path.0)[i])@)), // @refused_iff_some_segment_is_a_dot_segment_or_undecodable
        // "each segment is percent-decoded exactly once after splitting": one delivered segment per non-empty piece,
        // in order, each the decoding of its own piece (so an encoded slash never creates or crosses a boundary)
        r is Ok ==> r->Ok_0@.len() == kept_pieces(path.0).len()
            && (forall|i: int| 0 <= i < r->Ok_0@.len() ==> pct_decode(kept_pieces(path.0)[i]@) == Some((#[trigger] r->Ok_0@[i])@)), // @one_segment_per_nonempty_piece_each_decoded_exactly_once
        // "no path segment delivered to a handler as a variable value is ever '.', '..' or the empty string"
        r is Ok ==> (forall|i: int| 0 <= i < r->Ok_0@.len() ==> kept_pieces(path.0)[i]@.len() > 0
            && (#[trigger] r->Ok_0@[i])@ != "."@ && r->Ok_0@[i]@ != ".."@ && r->Ok_0@[i]@.len() > 0), // @no_dot_or_empty_segment_is_delivered
        segments_contract(path.0, r), // @the_contract_as_one_predicate
//@ closure 0
|segment: &&str| -> (b: bool) ensures b == (segment@.len() > 0)
//@ closure 1
|segment: &str| -> (x: Result<String, String>) ensures x is Ok ==> pct_decode(segment@) == Some(x->Ok_0@) && x->Ok_0@ != "."@ && x->Ok_0@ != ".."@, x is Err ==> !acceptable(segment@), acceptable(segment@) ==> x is Ok
//@ closure 2
|e: Utf8Error| -> (m: String)
//@ body_start
    broadcast use ax_decode_of_plain_dots, ax_decode_of_nonempty;
    proof {
        assert forall|a: &str| #[trigger] a@ == "."@ implies a == "." by { ax_str_ext(a, "."); }
        assert forall|a: &str| #[trigger] a@ == ".."@ implies a == ".." by { ax_str_ext(a, ".."); }
        // every element of a filtered sequence satisfies the predicate (vstd)
        slash_strs(path.0).filter_lemma(is_kept());
        assert forall|i: int| 0 <= i < kept_pieces(path.0).len() implies (#[trigger] kept_pieces(path.0)[i])@.len() > 0 by {
            assert(is_kept()(kept_pieces(path.0)[i]));
        }
    }
