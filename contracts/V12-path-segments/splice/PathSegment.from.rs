//@ ret r
//@ contract
    ensures
        !malformed_segment(segment@),                                              // @a_malformed_variable_segment_is_refused
        seg_kind(segment@) is Literal ==> r == PathSegment::Literal(r->Literal_0) && r->Literal_0@ == segment@,           // @no_braces_a_literal_with_that_text
        seg_kind(segment@) is Variable ==> r == PathSegment::VarnameSegment(r->VarnameSegment_0) && r->VarnameSegment_0@ == var_name(segment@),   // @braces_a_variable_named_by_what_is_inside
        seg_kind(segment@) is Wildcard ==> r == PathSegment::VarnameWildcard(r->VarnameWildcard_0) && r->VarnameWildcard_0@ == var_name(segment@), // @braces_with_the_pattern_a_wildcard
//@ body_start
    broadcast use ax_two_delimiters, ax_found_index_inside;
    let ghost why = malformed_segment(segment@);
