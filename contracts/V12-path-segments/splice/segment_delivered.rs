//@ ret r
//@ contract
    ensures
        // C03 "each segment is percent-decoded exactly once after splitting"
        r is Ok ==> pct_decode(segment@) == Some(r->Ok_0@), // @delivered_segment_is_the_piece_decoded_exactly_once
        // C03 "a '.' or '..' segment in any spelling (literal or percent-encoded) ... is answered 400" /
        // "no path segment delivered to a handler ... is ever '.', '..'"
        r is Ok ==> r->Ok_0@ != "."@ && r->Ok_0@ != ".."@, // @no_dot_segment_is_ever_delivered_in_any_spelling
        // "... or the empty string": pieces reaching this closure are non-empty (segment_is_kept), and stay so
        r is Ok && segment@.len() > 0 ==> r->Ok_0@.len() > 0, // @no_empty_segment_is_ever_delivered
        // C03 "a segment that is not valid UTF-8 after decoding ... is answered 400"
        pct_decode(segment@) is None ==> r is Err, // @undecodable_segment_refused
        // nothing else is refused
        (pct_decode(segment@) is Some && pct_decode(segment@)->Some_0 != "."@ && pct_decode(segment@)->Some_0 != ".."@) ==> r is Ok, // @every_other_segment_is_accepted
//@ body_start
    broadcast use ax_decode_of_plain_dots, ax_decode_of_nonempty;
    proof {
        // a str that is not the literal "." (resp. "..") does not have its characters (A11)
        assert forall|a: &str| #[trigger] a@ == "."@ implies a == "." by { ax_str_ext(a, "."); }
        assert forall|a: &str| #[trigger] a@ == ".."@ implies a == ".." by { ax_str_ext(a, ".."); }
    }
//@ closure 0
|e: Utf8Error| -> (m: String)
