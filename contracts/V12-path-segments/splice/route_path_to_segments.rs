//@ ret r
//@ contract
    ensures
        !malformed_template(path@),                                  // @a_malformed_template_is_refused
        texts(r@) == template_segments(path@),                       // @segments_are_the_pieces_between_slashes_without_a_trailing_empty_one
        forall|i: int| 0 <= i < r@.len() ==> (#[trigger] r@[i])@.len() > 0,   // @no_template_segment_is_empty
//@ body_start
    let ghost why = malformed_template(path@);
    proof {
        ax_split_is_slash_split(path);
        if path@.len() > 0 && path@[0] == '/' { split_of_leading_slash(path@); }
    }
//@ loop_iter 0 it
//@ loop 0 invariant
        invariant
            why == malformed_template(path@),
            path@.len() > 0 && path@[0] == '/',
            texts(ret@) == template_pieces(path@), ret@.len() >= 1,
            forall|j: int| 0 <= j < it.index@ ==> (#[trigger] ret@[j])@.len() > 0,
//@ loop 0 body_start
        proof {
            assert(*segment == ret@[it.index@ as int]);
            assert(texts(ret@)[it.index@ as int] == (*segment)@);
        }
//@ after "if segment.is_empty() {" 0
            proof {
                assert(segment@.len() == 0);
                assert(template_pieces(path@)[it.index@ as int].len() == 0);
            }
//@ before "if ret[ret.len() - 1] == \"\"" 0
    proof {
        assert(forall|j: int| 0 <= j < ret@.len() - 1 ==> (#[trigger] ret@[j])@.len() > 0);
    }
    let ghost ret0 = ret@;
    proof { ax_str_ext(ret0.last(), ""); reveal_strlit(""); assert(ret0.last()@.len() == 0 ==> ret0.last()@ =~= ""@); }
//@ after "ret.pop(); }" 0
    proof {
        assert(ret0.last()@.len() == 0 ==> ret@ == ret0.drop_last());
        assert(ret0.last()@.len() != 0 ==> ret@ == ret0);
    }
