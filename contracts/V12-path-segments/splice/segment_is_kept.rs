//@ ret r
//@ contract
    ensures r == (segment@.len() > 0), // @empty_pieces_are_dropped_so_repeated_and_trailing_slashes_do_not_matter
