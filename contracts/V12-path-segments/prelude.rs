use vstd::prelude::*;
//@ items
#[verifier::external_body]
pub fn fmt_opaque() -> String { unimplemented!() }
// ---- TRUSTED ----
/// percent_encoding::percent_decode_str(s).decode_utf8(): percent-decoding followed by UTF-8 validation, as an
/// uninterpreted partial function of the text (None: the decoded bytes are not valid UTF-8)
pub uninterp spec fn pct_decode(s: Seq<char>) -> Option<Seq<char>>;
/// dependency fact: text without a '%' decodes to itself (used only for the two literal dot segments)
pub broadcast axiom fn ax_decode_of_plain_dots()
    ensures #[trigger] pct_decode("."@) == Some("."@), #[trigger] pct_decode(".."@) == Some(".."@);
/// dependency fact: percent-decoding never turns a non-empty piece into the empty string (every character of the
/// input either stands for itself or is part of a %XX triple that yields one byte)
pub broadcast axiom fn ax_decode_of_nonempty(s: Seq<char>)
    ensures s.len() > 0 && #[trigger] pct_decode(s) is Some ==> pct_decode(s)->Some_0.len() > 0;
#[verifier::external_body]
pub struct Utf8Error { _p: u8 }
/// the decoded text (a Cow<str> in the real code; only its characters matter)
pub struct Decoded { pub text: Ghost<Seq<char>> }
#[verifier::external_body]
pub fn percent_decode_utf8(s: &str) -> (r: Result<Decoded, Utf8Error>)
    ensures (r is Ok) == (pct_decode(s@) is Some), r is Ok ==> r->Ok_0.text@ == pct_decode(s@)->Some_0 { unimplemented!() }
/// percent_decode_str(s).decode_utf8_lossy(): the decoding if it is valid UTF-8, otherwise some text with U+FFFD
/// replacements
pub uninterp spec fn lossy_text(s: Seq<char>) -> Seq<char>;
#[verifier::external_body]
pub fn percent_decode_utf8_lossy(s: &str) -> (r: Decoded)
    ensures r.text@ == (if pct_decode(s@) is Some { pct_decode(s@)->Some_0 } else { lossy_text(s@) }) { unimplemented!() }
/// str::trim: the text without leading and trailing whitespace (an uninterpreted function of the text)
pub uninterp spec fn trimmed(s: Seq<char>) -> Seq<char>;
impl Decoded {
    #[verifier::external_body]
    pub fn as_ref(&self) -> (r: &str) ensures r@ == self.text@ { unimplemented!() }
    /// Cow<str>::into_owned / to_string: the same text
    #[verifier::external_body]
    pub fn into_owned(self) -> (r: String) ensures r@ == self.text@ { unimplemented!() }
    /// (Cow<str> derefs to str: so that a `trim()` slipped in is decided, not refused)
    #[verifier::external_body]
    pub fn trim(&self) -> (r: &str) ensures r@ == trimmed(self.text@) { unimplemented!() }
    #[verifier::external_body]
    pub fn to_string_(&self) -> (r: String) ensures r@ == self.text@ { unimplemented!() }
}
/// A11: a str is determined by its characters (needed because Verus gives no facts about a failed string-literal pattern
/// other than inequality of the str values)
pub axiom fn ax_str_ext(a: &str, b: &str)
    ensures a@ == b@ ==> a == b;

// ---- TRUSTED: std's iterator adapters as used by input_path_to_segments, with their documented contracts ----
/// str::split('/'): the pieces between slashes, in order (always at least one piece; no piece contains a '/')
pub uninterp spec fn slash_strs<'a>(s: &'a str) -> Seq<&'a str>;
pub open spec fn texts(s: Seq<&str>) -> Seq<Seq<char>> { Seq::new(s.len(), |i: int| s[i]@) }
/// what `split('/')` computes, on the characters: spec.rs defines slash_split (cut at every '/')
pub axiom fn ax_split_is_slash_split(s: &str)
    ensures texts(slash_strs(s)) == slash_split(s@);
/// the lazy iterator over the pieces (std::str::Split), possibly filtered
pub struct Pieces<'a> { pub pieces: Ghost<Seq<&'a str>> }
pub trait SplitSlash { fn split_slash(&self) -> Pieces<'_>; }
impl SplitSlash for str {
    #[verifier::external_body]
    fn split_slash(&self) -> (r: Pieces<'_>) ensures r.pieces@ == slash_strs(self) { unimplemented!() }
}
impl<'a> Pieces<'a> {
    /// Iterator::filter: keeps, in order, exactly the items on which the predicate returns true.  Stated for every
    /// spec predicate `q` that every possible result of the closure agrees with.
    #[verifier::external_body]
    pub fn filter<F: Fn(&&'a str) -> bool>(self, f: F) -> (r: Pieces<'a>)
        requires forall|p: &&'a str| call_requires(f, (p,)),
        ensures forall|q: spec_fn(&'a str) -> bool| (forall|p: &'a str, b: bool| #[trigger] call_ensures(f, (&p,), b) ==> b == q(p))
                    ==> r.pieces@ == #[trigger] self.pieces@.filter(q),
    { unimplemented!() }
    /// Iterator::map (lazy): nothing happens until `collect`
    #[verifier::external_body]
    pub fn map<G: Fn(&'a str) -> Result<String, String>>(self, g: G) -> (r: MappedPieces<'a, G>)
        ensures r.pieces@ == self.pieces@, r.g == g,
    { unimplemented!() }
}
pub struct MappedPieces<'a, G> { pub pieces: Ghost<Seq<&'a str>>, pub g: G }
impl<'a, G: Fn(&'a str) -> Result<String, String>> MappedPieces<'a, G> {
    /// `collect::<Result<Vec<_>, _>>()`: applies the function to each item in order; all Ok: the Vec of the values in
    /// order; otherwise the first Err
    #[verifier::external_body]
    pub fn collect(self) -> (r: Result<Vec<String>, String>)
        requires forall|p: &'a str| call_requires(self.g, (p,)),
        ensures
            r is Ok ==> r->Ok_0@.len() == self.pieces@.len()
                && forall|i: int| 0 <= i < self.pieces@.len() ==> call_ensures(self.g, (#[trigger] self.pieces@[i],), Ok::<String, String>(r->Ok_0@[i])),
            r is Err ==> exists|i: int| 0 <= i < self.pieces@.len() && call_ensures(self.g, (#[trigger] self.pieces@[i],), Err::<String, String>(r->Err_0)),
    { unimplemented!() }
}
/// `s.chars().next()`: the first character, if any
#[verifier::external_body]
pub fn first_char(s: &str) -> (r: Option<char>) ensures r == (if s@.len() > 0 { Some(s@[0]) } else { None::<char> }) { unimplemented!() }
impl<'a> Pieces<'a> {
    /// Iterator::skip(n): everything but the first n items
    #[verifier::external_body]
    pub fn skip(self, n: usize) -> (r: Pieces<'a>)
        ensures r.pieces@ == (if n as int <= self.pieces@.len() { self.pieces@.skip(n as int) } else { Seq::empty() })
    { unimplemented!() }
    /// `collect::<Vec<_>>()`: the items in order
    #[verifier::external_body]
    pub fn collect_vec(self) -> (r: Vec<&'a str>) ensures r@ == self.pieces@ { unimplemented!() }
}
/// W9b: `panic!(..)` in route_path_to_segments IS the refusal of a malformed route template; the stand-in never
/// returns and its precondition demands the justification
#[verifier::external_body]
pub fn reject_template(Ghost(justified): Ghost<bool>) -> !
    requires justified
{ panic!() }
// ---- TRUSTED: std string functions used by PathSegment::from, each an uninterpreted function of the text ----
pub uninterp spec fn starts_with_c(s: Seq<char>, c: char) -> bool;
pub uninterp spec fn ends_with_c(s: Seq<char>, c: char) -> bool;
pub uninterp spec fn first_index_of(s: Seq<char>, c: char) -> Option<usize>;
pub uninterp spec fn byte_len(s: Seq<char>) -> usize;
pub uninterp spec fn range_of(s: Seq<char>, a: usize, b: usize) -> Seq<char>;
pub open spec fn prefix_to(s: Seq<char>, end: usize) -> Seq<char> { range_of(s, 0, end) }
pub open spec fn suffix_from(s: Seq<char>, start: usize) -> Seq<char> { range_of(s, start, byte_len(s)) }
/// dependency facts: a text that starts with one character and ends with a DIFFERENT one has at least two bytes; the
/// byte index `find` returns lies inside the text
pub broadcast axiom fn ax_two_delimiters(s: Seq<char>, a: char, b: char)
    ensures #[trigger] starts_with_c(s, a) && #[trigger] ends_with_c(s, b) && a != b ==> byte_len(s) >= 2;
pub broadcast axiom fn ax_found_index_inside(s: Seq<char>, c: char)
    ensures #[trigger] first_index_of(s, c) is Some ==> first_index_of(s, c)->Some_0 < byte_len(s);
pub trait StrFns2 {
    fn starts_with_char(&self, c: char) -> bool;
    fn ends_with_char(&self, c: char) -> bool;
    fn find_char(&self, c: char) -> Option<usize>;
    fn blen(&self) -> usize;
}
impl StrFns2 for str {
    #[verifier::external_body] fn starts_with_char(&self, c: char) -> (r: bool) ensures r == starts_with_c(self@, c) { unimplemented!() }
    #[verifier::external_body] fn ends_with_char(&self, c: char) -> (r: bool) ensures r == ends_with_c(self@, c) { unimplemented!() }
    #[verifier::external_body] fn find_char(&self, c: char) -> (r: Option<usize>) ensures r == first_index_of(self@, c) { unimplemented!() }
    #[verifier::external_body] fn blen(&self) -> (r: usize) ensures r == byte_len(self@) { unimplemented!() }
}
/// `&s[a..b]` / `&s[..b]` / `&s[a..]` (byte ranges; panic outside the text or off a character boundary)
#[verifier::external_body]
pub fn str_range(s: &str, a: usize, b: usize) -> (r: &str) requires a <= b <= byte_len(s@) ensures r@ == range_of(s@, a, b) { unimplemented!() }
#[verifier::external_body]
pub fn str_prefix(s: &str, end: usize) -> (r: &str) requires end <= byte_len(s@) ensures r@ == prefix_to(s@, end) { unimplemented!() }
#[verifier::external_body]
pub fn str_suffix(s: &str, start: usize) -> (r: &str) requires start <= byte_len(s@) ensures r@ == suffix_from(s@, start) { unimplemented!() }
pub trait ToStringSame2 { fn to_string_(&self) -> String; }
impl ToStringSame2 for str {
    #[verifier::external_body] fn to_string_(&self) -> (r: String) ensures r@ == self@ { unimplemented!() }
}
