use vstd::prelude::*;
//@ items
#[verifier::external_body]
pub fn fmt_opaque() -> String { unimplemented!() }
// ---- TRUSTED ----
/// percent_encoding::percent_decode_str(s).decode_utf8(): percent-decoding followed by UTF-8 validation, as an
/// uninterpreted partial function of the text (None: the decoded bytes are not valid UTF-8)
pub uninterp spec fn pct_decode(s: Seq<char>) -> Option<Seq<char>>;
/// dependency fact: text without a '%' decodes to itself (used only for the two literal dot segments)
pub broadcast axiom fn ax_decode_of_plain_dots()
    ensures #[trigger] pct_decode("."@) == Some("."@), #[trigger] pct_decode(".."@) == Some(".."@);
/// dependency fact: percent-decoding never turns a non-empty piece into the empty string (every character of the
/// input either stands for itself or is part of a %XX triple that yields one byte)
pub broadcast axiom fn ax_decode_of_nonempty(s: Seq<char>)
    ensures s.len() > 0 && #[trigger] pct_decode(s) is Some ==> pct_decode(s)->Some_0.len() > 0;
#[verifier::external_body]
pub struct Utf8Error { _p: u8 }
/// the decoded text (a Cow<str> in the real code; only its characters matter)
pub struct Decoded { pub text: Ghost<Seq<char>> }
#[verifier::external_body]
pub fn percent_decode_utf8(s: &str) -> (r: Result<Decoded, Utf8Error>)
    ensures (r is Ok) == (pct_decode(s@) is Some), r is Ok ==> r->Ok_0.text@ == pct_decode(s@)->Some_0 { unimplemented!() }
impl Decoded {
    #[verifier::external_body]
    pub fn as_ref(&self) -> (r: &str) ensures r@ == self.text@ { unimplemented!() }
    #[verifier::external_body]
    pub fn to_string_(&self) -> (r: String) ensures r@ == self.text@ { unimplemented!() }
}
/// A11: a str is determined by its characters (needed because Verus gives no facts about a failed string-literal pattern
/// other than inequality of the str values)
pub axiom fn ax_str_ext(a: &str, b: &str)
    ensures a@ == b@ ==> a == b;
