use vstd::prelude::*;
//@ items
#[verifier::external_body]
pub fn fmt_opaque() -> String { unimplemented!() }
// ---- TRUSTED ----
/// percent_encoding::percent_decode_str(s).decode_utf8(): percent-decoding followed by UTF-8 validation, as an
/// uninterpreted partial function of the text (None: the decoded bytes are not valid UTF-8)
pub uninterp spec fn pct_decode(s: Seq<char>) -> Option<Seq<char>>;
/// dependency fact: text without a '%' decodes to itself (used only for the two literal dot segments)
pub broadcast axiom fn ax_decode_of_plain_dots()
    ensures #[trigger] pct_decode("."@) == Some("."@), #[trigger] pct_decode(".."@) == Some(".."@);
/// dependency fact: percent-decoding never turns a non-empty piece into the empty string (every character of the
/// input either stands for itself or is part of a %XX triple that yields one byte)
pub broadcast axiom fn ax_decode_of_nonempty(s: Seq<char>)
    ensures s.len() > 0 && #[trigger] pct_decode(s) is Some ==> pct_decode(s)->Some_0.len() > 0;
#[verifier::external_body]
pub struct Utf8Error { _p: u8 }
/// the decoded text (a Cow<str> in the real code; only its characters matter)
pub struct Decoded { pub text: Ghost<Seq<char>> }
#[verifier::external_body]
pub fn percent_decode_utf8(s: &str) -> (r: Result<Decoded, Utf8Error>)
    ensures (r is Ok) == (pct_decode(s@) is Some), r is Ok ==> r->Ok_0.text@ == pct_decode(s@)->Some_0 { unimplemented!() }
/// percent_decode_str(s).decode_utf8_lossy(): the decoding if it is valid UTF-8, otherwise some text with U+FFFD
/// replacements
pub uninterp spec fn lossy_text(s: Seq<char>) -> Seq<char>;
#[verifier::external_body]
pub fn percent_decode_utf8_lossy(s: &str) -> (r: Decoded)
    ensures r.text@ == (if pct_decode(s@) is Some { pct_decode(s@)->Some_0 } else { lossy_text(s@) }) { unimplemented!() }
impl Decoded {
    #[verifier::external_body]
    pub fn as_ref(&self) -> (r: &str) ensures r@ == self.text@ { unimplemented!() }
    #[verifier::external_body]
    pub fn to_string_(&self) -> (r: String) ensures r@ == self.text@ { unimplemented!() }
}
/// A11: a str is determined by its characters (needed because Verus gives no facts about a failed string-literal pattern
/// other than inequality of the str values)
pub axiom fn ax_str_ext(a: &str, b: &str)
    ensures a@ == b@ ==> a == b;

// ---- TRUSTED: std's iterator adapters as used by input_path_to_segments, with their documented contracts ----
/// str::split('/'): the pieces between slashes, in order (always at least one piece; no piece contains a '/')
pub uninterp spec fn slash_strs<'a>(s: &'a str) -> Seq<&'a str>;
pub open spec fn texts(s: Seq<&str>) -> Seq<Seq<char>> { Seq::new(s.len(), |i: int| s[i]@) }
/// what `split('/')` computes, on the characters: spec.rs defines slash_split (cut at every '/')
pub axiom fn ax_split_is_slash_split(s: &str)
    ensures texts(slash_strs(s)) == slash_split(s@);
/// the lazy iterator over the pieces (std::str::Split), possibly filtered
pub struct Pieces<'a> { pub pieces: Ghost<Seq<&'a str>> }
pub trait SplitSlash { fn split_slash(&self) -> Pieces<'_>; }
impl SplitSlash for str {
    #[verifier::external_body]
    fn split_slash(&self) -> (r: Pieces<'_>) ensures r.pieces@ == slash_strs(self) { unimplemented!() }
}
impl<'a> Pieces<'a> {
    /// Iterator::filter: keeps, in order, exactly the items on which the predicate returns true.  Stated for every
    /// spec predicate `q` that every possible result of the closure agrees with.
    #[verifier::external_body]
    pub fn filter<F: Fn(&&'a str) -> bool>(self, f: F) -> (r: Pieces<'a>)
        requires forall|p: &&'a str| call_requires(f, (p,)),
        ensures forall|q: spec_fn(&'a str) -> bool| (forall|p: &'a str, b: bool| #[trigger] call_ensures(f, (&p,), b) ==> b == q(p))
                    ==> r.pieces@ == #[trigger] self.pieces@.filter(q),
    { unimplemented!() }
    /// Iterator::map (lazy): nothing happens until `collect`
    #[verifier::external_body]
    pub fn map<G: Fn(&'a str) -> Result<String, String>>(self, g: G) -> (r: MappedPieces<'a, G>)
        ensures r.pieces@ == self.pieces@, r.g == g,
    { unimplemented!() }
}
pub struct MappedPieces<'a, G> { pub pieces: Ghost<Seq<&'a str>>, pub g: G }
impl<'a, G: Fn(&'a str) -> Result<String, String>> MappedPieces<'a, G> {
    /// `collect::<Result<Vec<_>, _>>()`: applies the function to each item in order; all Ok: the Vec of the values in
    /// order; otherwise the first Err
    #[verifier::external_body]
    pub fn collect(self) -> (r: Result<Vec<String>, String>)
        requires forall|p: &'a str| call_requires(self.g, (p,)),
        ensures
            r is Ok ==> r->Ok_0@.len() == self.pieces@.len()
                && forall|i: int| 0 <= i < self.pieces@.len() ==> call_ensures(self.g, (#[trigger] self.pieces@[i],), Ok::<String, String>(r->Ok_0@[i])),
            r is Err ==> exists|i: int| 0 <= i < self.pieces@.len() && call_ensures(self.g, (#[trigger] self.pieces@[i],), Err::<String, String>(r->Err_0)),
    { unimplemented!() }
}
/// `s.chars().next()`: the first character, if any
#[verifier::external_body]
pub fn first_char(s: &str) -> (r: Option<char>) ensures r == (if s@.len() > 0 { Some(s@[0]) } else { None::<char> }) { unimplemented!() }
impl<'a> Pieces<'a> {
    /// Iterator::skip(n): everything but the first n items
    #[verifier::external_body]
    pub fn skip(self, n: usize) -> (r: Pieces<'a>)
        ensures r.pieces@ == (if n as int <= self.pieces@.len() { self.pieces@.skip(n as int) } else { Seq::empty() })
    { unimplemented!() }
    /// `collect::<Vec<_>>()`: the items in order
    #[verifier::external_body]
    pub fn collect_vec(self) -> (r: Vec<&'a str>) ensures r@ == self.pieces@ { unimplemented!() }
}
/// W9b: `panic!(..)` in route_path_to_segments IS the refusal of a malformed route template; the stand-in never
/// returns and its precondition demands the justification
#[verifier::external_body]
pub fn reject_template(Ghost(justified): Ghost<bool>) -> !
    requires justified
{ panic!() }
