// ---- CHECKED: what the macro-generated handler glue must do, from C12 / C13 ----

/// `hr`: what the consumer's handler function returned on these arguments (each arity's `handle_rel` says: SOME possible
/// result of the call).  The glue's result `r`:
///  * handler returned Ok(value): the value's OWN `to_result` decides -- its Ok response is returned unchanged
///    (C12: "A handler's typed success value is sent with the status code its type declares ..."); if that
///    conversion fails the request fails;
///  * handler returned Err(e): `e`'s OWN conversion, asked for a response with the status `e` declares (C13); what it
///    yields travels in the HandlerError.
pub open spec fn glue_case<R: HttpResponse, E: HttpResponseError>(hr: Result<R, E>, r: Result<Response, HandlerError>) -> bool {
    match hr {
        Ok(value) => exists|tr: HttpHandlerResult| #[trigger] value.to_result_rel(tr) && (match tr {
            Ok(rsp) => r == Ok::<Response, HandlerError>(rsp),
            Err(_) => r is Err,
        }),
        Err(e) => r is Err && (exists|res: HttpHandlerResult| #[trigger] e.to_response_rel(e.status_code_spec().0, false, Seq::<(Seq<char>, Seq<char>)>::empty(), res)
            && (match res {
                Ok(rsp) => r->Err_0 is Handler && r->Err_0->rsp == rsp,
                Err(e2) => r->Err_0 == HandlerError::Dropshot(e2),
            })),
    }
}

proof fn sentinel_v17_prelude_consistent()
    ensures false
{
    broadcast use ax_constant_header_values_ok;
}
proof fn sentinel_glue_not_trivial<R: HttpResponse, E: HttpResponseError>(hr: Result<R, E>, r: Result<Response, HandlerError>)
    ensures glue_case::<R, E>(hr, r)
{}
