//@ ret r
//@ closure 0
|error: HttpError| -> (h: HandlerError)
