//@ ret r
//@ contract
        requires self.handle_pre(rqctx, params)
        ensures self.handle_rel(rqctx, params, r)
