//@ ret r
//@ contract
        ensures self.to_result_rel(r)
