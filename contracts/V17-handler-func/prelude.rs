use vstd::prelude::*;
use vstd::std_specs::cmp::*;
use std::marker::PhantomData;
//@ items
//@ include ../_common/prelude_http.rs
//@ include ../_common/prelude_error.rs
//@ include ../_common/prelude_response.rs
//@ include ../_common/prelude_handler_error.rs

// ---- TRUSTED (V17) ----
pub trait ServerContext {}
#[verifier::external_body]
#[verifier::accept_recursive_types(Context)]
pub struct RequestContext<Context> { _p: PhantomData<Context> }
/// extractor/common.rs: RequestExtractor -- only a bound here (the extraction itself is unit V13's subject)
pub trait RequestExtractor {}
impl RequestExtractor for () {}
impl<T0> RequestExtractor for (T0,) {}
impl<T1, T2> RequestExtractor for (T1, T2,) {}
impl<T1, T2, T3> RequestExtractor for (T1, T2, T3,) {}
