//@ include ../_common/spec_version.rs
//@ include ../_common/spec_router.rs
// ---- CHECKED: registration rules of the trie, from the statement of C02 ----

/// C02, walking the path template down the trie as it is BEFORE the registration.  None: the endpoint conflicts
/// with what is registered ("two different kinds of segment (literal, variable, wildcard) or two differently named
/// variables at the same position, a repeated variable name, segments after a wildcard").  Some(hs): no such
/// conflict; hs are the endpoints already registered for the same path and method.
pub open spec fn reg<C: ServerContext>(n: HttpRouterNode<C>, segs: Seq<Seq<char>>, seen: Set<String>, m: String)
    -> Option<Seq<ApiEndpoint<C>>>
    decreases segs.len()
{
    if segs.len() == 0 {
        Some(handlers_for(n, m))
    } else {
        let rest = segs.skip(1);
        match seg_of(segs[0]) {
            PathSegment::Literal(lit) => match n.edges {
                None => reg_fresh(rest, seen),
                Some(HttpRouterEdges::Literals(e)) =>
                    if e@.contains_key(lit) { reg(*e@[lit], rest, seen, m) } else { reg_fresh(rest, seen) },
                _ => None,   // a variable or wildcard is registered at this position
            },
            PathSegment::VarnameSegment(v) =>
                if seen.contains(v) { None }   // repeated variable name
                else { match n.edges {
                    None => reg_fresh(rest, seen.insert(v)),
                    Some(HttpRouterEdges::VariableSingle(w, c)) => if w == v { reg(*c, rest, seen.insert(v), m) } else { None },
                    _ => None,
                } },
            PathSegment::VarnameWildcard(v) =>
                if rest.len() != 0 { None }   // segments after a wildcard
                else if seen.contains(v) { None }
                else { match n.edges {
                    None => Some(Seq::empty()),
                    Some(HttpRouterEdges::VariableRest(w, c)) => if w == v { Some(handlers_for(*c, m)) } else { None },
                    _ => None,
                } },
        }
    }
}
/// below a position where the trie has nothing registered yet only the template's own rules apply
pub open spec fn reg_fresh<C: ServerContext>(segs: Seq<Seq<char>>, seen: Set<String>) -> Option<Seq<ApiEndpoint<C>>>
    decreases segs.len()
{
    if segs.len() == 0 {
        Some(Seq::empty())
    } else {
        let rest = segs.skip(1);
        match seg_of(segs[0]) {
            PathSegment::Literal(lit) => reg_fresh(rest, seen),
            PathSegment::VarnameSegment(v) => if seen.contains(v) { None } else { reg_fresh(rest, seen.insert(v)) },
            PathSegment::VarnameWildcard(v) => if rest.len() != 0 || seen.contains(v) { None } else { Some(Seq::empty()) },
        }
    }
}
/// one step of `reg`, spelled out (the definition, for the solver)
pub proof fn reg_step<C: ServerContext>(n: HttpRouterNode<C>, segs: Seq<Seq<char>>, seen: Set<String>, m: String)
    requires segs.len() > 0
    ensures reg(n, segs, seen, m) == (match seg_of(segs[0]) {
            PathSegment::Literal(lit) => match n.edges {
                None => reg_fresh(segs.skip(1), seen),
                Some(HttpRouterEdges::Literals(e)) =>
                    if e@.contains_key(lit) { reg(*e@[lit], segs.skip(1), seen, m) } else { reg_fresh(segs.skip(1), seen) },
                _ => None,
            },
            PathSegment::VarnameSegment(v) =>
                if seen.contains(v) { None }
                else { match n.edges {
                    None => reg_fresh(segs.skip(1), seen.insert(v)),
                    Some(HttpRouterEdges::VariableSingle(w, c)) => if w == v { reg(*c, segs.skip(1), seen.insert(v), m) } else { None },
                    _ => None,
                } },
            PathSegment::VarnameWildcard(v) =>
                if segs.skip(1).len() != 0 { None }
                else if seen.contains(v) { None }
                else { match n.edges {
                    None => Some(Seq::empty()),
                    Some(HttpRouterEdges::VariableRest(w, c)) => if w == v { Some(handlers_for(*c, m)) } else { None },
                    _ => None,
                } },
        })
{}

pub open spec fn fresh_node<C: ServerContext>(n: HttpRouterNode<C>) -> bool {
    n.edges is None && n.methods@ == Map::<String, Vec<ApiEndpoint<C>>>::empty()
}
pub proof fn reg_of_fresh<C: ServerContext>(n: HttpRouterNode<C>, segs: Seq<Seq<char>>, seen: Set<String>, m: String)
    requires fresh_node(n)
    ensures reg(n, segs, seen, m) == reg_fresh::<C>(segs, seen) // @a_fresh_node_has_only_the_templates_own_rules
{}

/// C02: "the same method and path as an existing endpoint with version ranges that share a version"
/// (modulo known finding F2, which belongs to overlaps_with: unit V1)
pub open spec fn version_conflict<C: ServerContext>(h: ApiEndpoint<C>, v: ApiEndpointVersions) -> bool {
    shared(h.versions, v)
}
pub open spec fn f2<C: ServerContext>(h: ApiEndpoint<C>, v: ApiEndpointVersions) -> bool {
    known_exception(h.versions, v)
}

// ---- what a successful insert does to the trie (structural), and what that means for lookups (C01, C02 converse) ----

/// the parts of a (possibly absent) node that matter: an absent node behaves like an empty one
pub open spec fn edges_of<C: ServerContext>(o: Option<HttpRouterNode<C>>) -> Option<HttpRouterEdges<C>> {
    match o { Some(n) => n.edges, None => None }
}
pub open spec fn hs_of<C: ServerContext>(o: Option<HttpRouterNode<C>>, k: String) -> Seq<ApiEndpoint<C>> {
    match o { Some(n) => handlers_for(n, k), None => Seq::empty() }
}
pub open spec fn lit_child<C: ServerContext>(o: Option<HttpRouterNode<C>>, l: String) -> Option<HttpRouterNode<C>> {
    match edges_of(o) { Some(HttpRouterEdges::Literals(m)) => if m@.contains_key(l) { Some(*m@[l]) } else { None }, _ => None }
}
pub open spec fn var_child<C: ServerContext>(o: Option<HttpRouterNode<C>>) -> Option<HttpRouterNode<C>> {
    match edges_of(o) { Some(HttpRouterEdges::VariableSingle(_, c)) => Some(*c), _ => None }
}
pub open spec fn rest_child<C: ServerContext>(o: Option<HttpRouterNode<C>>) -> Option<HttpRouterNode<C>> {
    match edges_of(o) { Some(HttpRouterEdges::VariableRest(_, c)) => Some(*c), _ => None }
}

/// `n1` is what the (sub)trie `o` becomes when endpoint `e` is registered under method name `mk` with the remaining
/// path template `tm`: nothing changes except along the template's path, where missing nodes are created, and at
/// its end, where `e` is appended to the endpoints of `mk`.
pub open spec fn ins_rel<C: ServerContext>(o: Option<HttpRouterNode<C>>, tm: Seq<Seq<char>>, n1: HttpRouterNode<C>, e: ApiEndpoint<C>, mk: String) -> bool
    decreases tm.len()
{
    if tm.len() == 0 {
        &&& n1.edges == edges_of(o)
        &&& forall|k: String| #[trigger] handlers_for(n1, k) == (if k == mk { hs_of(o, k).push(e) } else { hs_of(o, k) })
    } else {
        &&& forall|k: String| #[trigger] handlers_for(n1, k) == hs_of(o, k)
        &&& match seg_of(tm[0]) {
            PathSegment::Literal(l) => {
                &&& n1.edges matches Some(HttpRouterEdges::Literals(m1))
                &&& m1@.contains_key(l)
                &&& forall|k: String| k != l ==> (#[trigger] m1@.contains_key(k) == (lit_child(o, k) is Some))
                &&& forall|k: String| k != l && #[trigger] m1@.contains_key(k) ==> Some(*m1@[k]) == lit_child(o, k)
                &&& ins_rel(lit_child(o, l), tm.skip(1), *m1@[l], e, mk)
            },
            PathSegment::VarnameSegment(v) => {
                &&& n1.edges matches Some(HttpRouterEdges::VariableSingle(w, c1))
                &&& w == v
                &&& ins_rel(var_child(o), tm.skip(1), *c1, e, mk)
            },
            PathSegment::VarnameWildcard(v) => {
                &&& n1.edges matches Some(HttpRouterEdges::VariableRest(w, c1))
                &&& w == v
                &&& ins_rel(rest_child(o), Seq::empty(), *c1, e, mk)
            },
        }
    }
}
/// a freshly created node is as good as an absent one
pub proof fn ins_rel_fresh<C: ServerContext>(n: HttpRouterNode<C>, tm: Seq<Seq<char>>, n1: HttpRouterNode<C>, e: ApiEndpoint<C>, mk: String)
    requires fresh_node(n)
    ensures ins_rel(Some(n), tm, n1, e, mk) == ins_rel(None, tm, n1, e, mk) // @a_fresh_node_is_as_good_as_none
{
    assert(forall|k: String| hs_of(Some(n), k) == hs_of::<C>(None, k));
    assert(forall|k: String| lit_child(Some(n), k) == lit_child::<C>(None, k));
}

/// an endpoint already registered for the same path and method stands in the way of `ver`
pub open spec fn blocks<C: ServerContext>(h: ApiEndpoint<C>, ver: ApiEndpointVersions) -> bool {
    version_conflict(h, ver) || f2(h, ver)
}
/// C02: the registration runs into one of the conflicts named by the property
pub open spec fn conflicting<C: ServerContext>(root: HttpRouterNode<C>, tmpl: Seq<Seq<char>>, m: String, ver: ApiEndpointVersions) -> bool {
    match reg(root, tmpl, Set::empty(), m) {
        None => true,
        Some(hs) => exists|i: int| 0 <= i < hs.len() && #[trigger] blocks(hs[i], ver),
    }
}

proof fn sentinel_v14_prelude_consistent()
    ensures false
{
    broadcast use vle_total, vle_antisym, vle_trans, ax_string_ext, ax_string_obeys_cmp, ax_method_names_are_header_values;
}
proof fn sentinel_reg_not_always_none<C: ServerContext>(n: HttpRouterNode<C>, segs: Seq<Seq<char>>, m: String)
    ensures reg(n, segs, Set::empty(), m) is None
{}
proof fn sentinel_reg_not_always_some<C: ServerContext>(n: HttpRouterNode<C>, segs: Seq<Seq<char>>, m: String)
    ensures reg(n, segs, Set::empty(), m) is Some
{}
