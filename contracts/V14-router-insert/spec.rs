//@ include ../_common/spec_version.rs
//@ include ../_common/spec_router.rs
// ---- CHECKED: registration rules of the trie, from the statement of C02 ----

/// C02, walking the path template down the trie as it is BEFORE the registration.  None: the endpoint conflicts
/// with what is registered ("two different kinds of segment (literal, variable, wildcard) or two differently named
/// variables at the same position, a repeated variable name, segments after a wildcard").  Some(hs): no such
/// conflict; hs are the endpoints already registered for the same path and method.
pub open spec fn reg<C: ServerContext>(n: HttpRouterNode<C>, segs: Seq<Seq<char>>, seen: Set<String>, m: String)
    -> Option<Seq<ApiEndpoint<C>>>
    decreases segs.len()
{
    if segs.len() == 0 {
        Some(handlers_for(n, m))
    } else {
        let rest = segs.skip(1);
        match seg_of(segs[0]) {
            PathSegment::Literal(lit) => match n.edges {
                None => reg_fresh(rest, seen),
                Some(HttpRouterEdges::Literals(e)) =>
                    if e@.contains_key(lit) { reg(*e@[lit], rest, seen, m) } else { reg_fresh(rest, seen) },
                _ => None,   // a variable or wildcard is registered at this position
            },
            PathSegment::VarnameSegment(v) =>
                if seen.contains(v) { None }   // repeated variable name
                else { match n.edges {
                    None => reg_fresh(rest, seen.insert(v)),
                    Some(HttpRouterEdges::VariableSingle(w, c)) => if w == v { reg(*c, rest, seen.insert(v), m) } else { None },
                    _ => None,
                } },
            PathSegment::VarnameWildcard(v) =>
                if rest.len() != 0 { None }   // segments after a wildcard
                else if seen.contains(v) { None }
                else { match n.edges {
                    None => Some(Seq::empty()),
                    Some(HttpRouterEdges::VariableRest(w, c)) => if w == v { Some(handlers_for(*c, m)) } else { None },
                    _ => None,
                } },
        }
    }
}
/// below a position where the trie has nothing registered yet only the template's own rules apply
pub open spec fn reg_fresh<C: ServerContext>(segs: Seq<Seq<char>>, seen: Set<String>) -> Option<Seq<ApiEndpoint<C>>>
    decreases segs.len()
{
    if segs.len() == 0 {
        Some(Seq::empty())
    } else {
        let rest = segs.skip(1);
        match seg_of(segs[0]) {
            PathSegment::Literal(lit) => reg_fresh(rest, seen),
            PathSegment::VarnameSegment(v) => if seen.contains(v) { None } else { reg_fresh(rest, seen.insert(v)) },
            PathSegment::VarnameWildcard(v) => if rest.len() != 0 || seen.contains(v) { None } else { Some(Seq::empty()) },
        }
    }
}
/// one step of `reg`, spelled out (the definition, for the solver)
pub proof fn reg_step<C: ServerContext>(n: HttpRouterNode<C>, segs: Seq<Seq<char>>, seen: Set<String>, m: String)
    requires segs.len() > 0
    ensures reg(n, segs, seen, m) == (match seg_of(segs[0]) {
            PathSegment::Literal(lit) => match n.edges {
                None => reg_fresh(segs.skip(1), seen),
                Some(HttpRouterEdges::Literals(e)) =>
                    if e@.contains_key(lit) { reg(*e@[lit], segs.skip(1), seen, m) } else { reg_fresh(segs.skip(1), seen) },
                _ => None,
            },
            PathSegment::VarnameSegment(v) =>
                if seen.contains(v) { None }
                else { match n.edges {
                    None => reg_fresh(segs.skip(1), seen.insert(v)),
                    Some(HttpRouterEdges::VariableSingle(w, c)) => if w == v { reg(*c, segs.skip(1), seen.insert(v), m) } else { None },
                    _ => None,
                } },
            PathSegment::VarnameWildcard(v) =>
                if segs.skip(1).len() != 0 { None }
                else if seen.contains(v) { None }
                else { match n.edges {
                    None => Some(Seq::empty()),
                    Some(HttpRouterEdges::VariableRest(w, c)) => if w == v { Some(handlers_for(*c, m)) } else { None },
                    _ => None,
                } },
        })
{}

pub open spec fn fresh_node<C: ServerContext>(n: HttpRouterNode<C>) -> bool {
    n.edges is None && n.methods@ == Map::<String, Vec<ApiEndpoint<C>>>::empty()
}
pub proof fn reg_of_fresh<C: ServerContext>(n: HttpRouterNode<C>, segs: Seq<Seq<char>>, seen: Set<String>, m: String)
    requires fresh_node(n)
    ensures reg(n, segs, seen, m) == reg_fresh::<C>(segs, seen) // @a_fresh_node_has_only_the_templates_own_rules
{}

/// C02: "the same method and path as an existing endpoint with version ranges that share a version"
/// (modulo known finding F2, which belongs to overlaps_with: unit V1)
pub open spec fn version_conflict<C: ServerContext>(h: ApiEndpoint<C>, v: ApiEndpointVersions) -> bool {
    shared(h.versions, v)
}
pub open spec fn f2<C: ServerContext>(h: ApiEndpoint<C>, v: ApiEndpointVersions) -> bool {
    known_exception(h.versions, v)
}

// ---- what a successful insert does to the trie (structural), and what that means for lookups (C01, C02 converse) ----

/// the parts of a (possibly absent) node that matter: an absent node behaves like an empty one
pub open spec fn edges_of<C: ServerContext>(o: Option<HttpRouterNode<C>>) -> Option<HttpRouterEdges<C>> {
    match o { Some(n) => n.edges, None => None }
}
pub open spec fn hs_of<C: ServerContext>(o: Option<HttpRouterNode<C>>, k: String) -> Seq<ApiEndpoint<C>> {
    match o { Some(n) => handlers_for(n, k), None => Seq::empty() }
}
pub open spec fn lit_child<C: ServerContext>(o: Option<HttpRouterNode<C>>, l: String) -> Option<HttpRouterNode<C>> {
    match edges_of(o) { Some(HttpRouterEdges::Literals(m)) => if m@.contains_key(l) { Some(*m@[l]) } else { None }, _ => None }
}
pub open spec fn var_child<C: ServerContext>(o: Option<HttpRouterNode<C>>) -> Option<HttpRouterNode<C>> {
    match edges_of(o) { Some(HttpRouterEdges::VariableSingle(_, c)) => Some(*c), _ => None }
}
pub open spec fn rest_child<C: ServerContext>(o: Option<HttpRouterNode<C>>) -> Option<HttpRouterNode<C>> {
    match edges_of(o) { Some(HttpRouterEdges::VariableRest(_, c)) => Some(*c), _ => None }
}

/// `n1` is what the (sub)trie `o` becomes when endpoint `e` is registered under method name `mk` with the remaining
/// path template `tm`: nothing changes except along the template's path, where missing nodes are created, and at
/// its end, where `e` is appended to the endpoints of `mk`.
pub open spec fn ins_rel<C: ServerContext>(o: Option<HttpRouterNode<C>>, tm: Seq<Seq<char>>, n1: HttpRouterNode<C>, e: ApiEndpoint<C>, mk: String) -> bool
    decreases tm.len()
{
    if tm.len() == 0 {
        &&& n1.edges == edges_of(o)
        &&& forall|k: String| #[trigger] handlers_for(n1, k) == (if k == mk { hs_of(o, k).push(e) } else { hs_of(o, k) })
    } else {
        &&& forall|k: String| #[trigger] handlers_for(n1, k) == hs_of(o, k)
        &&& match seg_of(tm[0]) {
            PathSegment::Literal(l) => {
                &&& n1.edges matches Some(HttpRouterEdges::Literals(m1))
                &&& m1@.contains_key(l)
                &&& forall|k: String| k != l ==> (#[trigger] m1@.contains_key(k) == (lit_child(o, k) is Some))
                &&& forall|k: String| k != l && #[trigger] m1@.contains_key(k) ==> Some(*m1@[k]) == lit_child(o, k)
                &&& ins_rel(lit_child(o, l), tm.skip(1), *m1@[l], e, mk)
            },
            PathSegment::VarnameSegment(v) => {
                &&& n1.edges matches Some(HttpRouterEdges::VariableSingle(w, c1))
                &&& w == v
                &&& ins_rel(var_child(o), tm.skip(1), *c1, e, mk)
            },
            PathSegment::VarnameWildcard(v) => {
                &&& n1.edges matches Some(HttpRouterEdges::VariableRest(w, c1))
                &&& w == v
                &&& ins_rel(rest_child(o), Seq::empty(), *c1, e, mk)
            },
        }
    }
}
/// a freshly created node is as good as an absent one
pub proof fn ins_rel_fresh<C: ServerContext>(n: HttpRouterNode<C>, tm: Seq<Seq<char>>, n1: HttpRouterNode<C>, e: ApiEndpoint<C>, mk: String)
    requires fresh_node(n)
    ensures ins_rel(Some(n), tm, n1, e, mk) == ins_rel(None, tm, n1, e, mk) // @a_fresh_node_is_as_good_as_none
{
    assert(forall|k: String| hs_of(Some(n), k) == hs_of::<C>(None, k));
    assert(forall|k: String| lit_child(Some(n), k) == lit_child::<C>(None, k));
}


// ---- from the structural fact to lookups: what lookup_route's walk (V10: walk_to / end_step) finds afterwards ----

/// no kind conflict between the template and what is registered along its path (implied by `reg(..) is Some`)
pub open spec fn kinds_ok<C: ServerContext>(o: Option<HttpRouterNode<C>>, tm: Seq<Seq<char>>) -> bool
    decreases tm.len()
{
    if tm.len() == 0 { true } else {
        match seg_of(tm[0]) {
            PathSegment::Literal(l) => (edges_of(o) is None || edges_of(o)->Some_0 is Literals) && kinds_ok(lit_child(o, l), tm.skip(1)),
            PathSegment::VarnameSegment(v) => match edges_of(o) {
                None => kinds_ok::<C>(None, tm.skip(1)),
                Some(HttpRouterEdges::VariableSingle(w, c)) => w == v && kinds_ok(Some(*c), tm.skip(1)),
                _ => false,
            },
            PathSegment::VarnameWildcard(v) => match edges_of(o) {
                None => true,
                Some(HttpRouterEdges::VariableRest(w, c)) => w == v,
                _ => false,
            },
        }
    }
}
pub proof fn reg_fresh_kinds_ok<C: ServerContext>(tm: Seq<Seq<char>>, seen: Set<String>)
    requires reg_fresh::<C>(tm, seen) is Some
    ensures kinds_ok::<C>(None, tm)
    decreases tm.len()
{
    if tm.len() > 0 {
        match seg_of(tm[0]) {
            PathSegment::Literal(l) => { reg_fresh_kinds_ok::<C>(tm.skip(1), seen); },
            PathSegment::VarnameSegment(v) => { reg_fresh_kinds_ok::<C>(tm.skip(1), seen.insert(v)); },
            PathSegment::VarnameWildcard(v) => {},
        }
    }
}
/// an accepted registration has no kind conflict along its path
pub proof fn accepted_kinds_ok<C: ServerContext>(n: HttpRouterNode<C>, tm: Seq<Seq<char>>, seen: Set<String>, m: String)
    requires reg(n, tm, seen, m) is Some
    ensures kinds_ok(Some(n), tm) // @accepted_registrations_have_no_kind_conflict
    decreases tm.len()
{
    if tm.len() > 0 {
        let rest = tm.skip(1);
        match seg_of(tm[0]) {
            PathSegment::Literal(l) => match n.edges {
                None => { reg_fresh_kinds_ok::<C>(rest, seen); },
                Some(HttpRouterEdges::Literals(e)) => {
                    if e@.contains_key(l) { accepted_kinds_ok(*e@[l], rest, seen, m); } else { reg_fresh_kinds_ok::<C>(rest, seen); }
                },
                _ => {},
            },
            PathSegment::VarnameSegment(v) => match n.edges {
                None => { reg_fresh_kinds_ok::<C>(rest, seen.insert(v)); },
                Some(HttpRouterEdges::VariableSingle(w, c)) => { accepted_kinds_ok(*c, rest, seen.insert(v), m); },
                _ => {},
            },
            PathSegment::VarnameWildcard(v) => {},
        }
    }
}

/// C01: the request segments `p` lead down the template `tm` to its end (a literal by the identical segment, a
/// variable by any segment, a trailing wildcard by at least one remaining segment)
pub open spec fn wmatch(tm: Seq<Seq<char>>, p: Seq<String>) -> bool
    decreases tm.len()
{
    if tm.len() == 0 { p.len() == 0 } else {
        match seg_of(tm[0]) {
            PathSegment::Literal(l) => p.len() > 0 && p[0] == l && wmatch(tm.skip(1), p.skip(1)),
            PathSegment::VarnameSegment(v) => p.len() > 0 && wmatch(tm.skip(1), p.skip(1)),
            PathSegment::VarnameWildcard(v) => p.len() > 0,
        }
    }
}
/// ... or they end exactly at the parent of the template's trailing wildcard (which then receives the empty list)
pub open spec fn wend(tm: Seq<Seq<char>>, p: Seq<String>) -> bool
    decreases tm.len()
{
    if tm.len() == 0 { false } else {
        match seg_of(tm[0]) {
            PathSegment::Literal(l) => p.len() > 0 && p[0] == l && wend(tm.skip(1), p.skip(1)),
            PathSegment::VarnameSegment(v) => p.len() > 0 && wend(tm.skip(1), p.skip(1)),
            PathSegment::VarnameWildcard(v) => p.len() == 0,
        }
    }
}
pub open spec fn walk_o<C: ServerContext>(o: Option<HttpRouterNode<C>>, p: Seq<String>, vars: Map<String, VarSpec>)
    -> Option<(HttpRouterNode<C>, Map<String, VarSpec>)>
{
    match o { Some(n) => walk_to(n, p, vars), None => None }
}
/// the endpoints that the node reached by `p` holds for method name `k` (no node: none)
pub open spec fn hn<C: ServerContext>(o: Option<HttpRouterNode<C>>, p: Seq<String>, vars: Map<String, VarSpec>, k: String) -> Seq<ApiEndpoint<C>> {
    match walk_o(o, p, vars) { Some((a, _)) => handlers_for(a, k), None => Seq::empty() }
}
/// the endpoints that the trailing-wildcard child of the node reached by `p` holds (end_step's case)
pub open spec fn hw<C: ServerContext>(o: Option<HttpRouterNode<C>>, p: Seq<String>, vars: Map<String, VarSpec>, k: String) -> Seq<ApiEndpoint<C>> {
    match walk_o(o, p, vars) { Some((a, _)) => hs_of(rest_child(Some(a)), k), None => Seq::empty() }
}
pub open spec fn one_if<C: ServerContext>(b: bool, e: ApiEndpoint<C>) -> Seq<ApiEndpoint<C>> {
    if b { seq![e] } else { Seq::empty() }
}

/// C01 / C02 converse, at the nodes the walk reaches: after a successful registration every request path finds
/// exactly what it found before, plus the new endpoint iff the path leads down the new endpoint's template and the
/// method is the new endpoint's.
pub proof fn lookup_after_insert<C: ServerContext>(o: Option<HttpRouterNode<C>>, tm: Seq<Seq<char>>, n1: HttpRouterNode<C>,
    e: ApiEndpoint<C>, mk: String, p: Seq<String>, vars: Map<String, VarSpec>, k: String)
    requires
        kinds_ok(o, tm),
        ins_rel(o, tm, n1, e, mk),
    ensures
        hn(Some(n1), p, vars, k) == hn(o, p, vars, k) + one_if(k == mk && wmatch(tm, p), e), // @reached_node_holds_the_old_endpoints_plus_the_new_one_iff_matched
        hw(Some(n1), p, vars, k) == hw(o, p, vars, k) + one_if(k == mk && wend(tm, p), e), // @wildcard_child_likewise
    decreases tm.len(), p.len()
{
    assert(forall|s: Seq<ApiEndpoint<C>>| s + Seq::<ApiEndpoint<C>>::empty() =~= s);
    assert(forall|s: Seq<ApiEndpoint<C>>| #[trigger] s.push(e) =~= s + seq![e]);
    if tm.len() == 0 {
        same_edges_same_walk(o, n1, p, vars, k);
    } else {
        let rest = tm.skip(1);
        if p.len() == 0 {
            match seg_of(tm[0]) {
                PathSegment::VarnameWildcard(v) => {
                    let c1 = n1.edges->Some_0->VariableRest_1;
                    assert(ins_rel(rest_child(o), Seq::empty(), *c1, e, mk));
                    assert(hs_of(rest_child(Some(n1)), k) == handlers_for(*c1, k));
                },
                _ => {},
            }
        } else {
            let p1 = p.skip(1);
            match seg_of(tm[0]) {
                PathSegment::Literal(l) => {
                    let m1 = n1.edges->Some_0->Literals_0;
                    if p[0] == l {
                        lookup_after_insert(lit_child(o, l), rest, *m1@[l], e, mk, p1, vars, k);
                    } else {
                        assert(m1@.contains_key(p[0]) == (lit_child(o, p[0]) is Some));
                        if m1@.contains_key(p[0]) { assert(Some(*m1@[p[0]]) == lit_child(o, p[0])); }
                    }
                },
                PathSegment::VarnameSegment(v) => {
                    let c1 = n1.edges->Some_0->VariableSingle_1;
                    lookup_after_insert(var_child(o), rest, *c1, e, mk, p1, vars.insert(v, VarSpec::Str(p[0])), k);
                },
                PathSegment::VarnameWildcard(v) => {
                    let c1 = n1.edges->Some_0->VariableRest_1;
                    assert(ins_rel(rest_child(o), Seq::empty(), *c1, e, mk));
                },
            }
        }
    }
}
/// with the same outgoing edges a non-empty walk reaches the same node
pub proof fn same_edges_same_walk<C: ServerContext>(o: Option<HttpRouterNode<C>>, n1: HttpRouterNode<C>, p: Seq<String>, vars: Map<String, VarSpec>, k: String)
    requires n1.edges == edges_of(o)
    ensures
        p.len() > 0 ==> walk_to(n1, p, vars) == walk_o(o, p, vars),
        p.len() == 0 ==> walk_to(n1, p, vars) == Some((n1, vars)),
        hw(Some(n1), p, vars, k) == hw(o, p, vars, k),
{
}

/// C01 ("handled by exactly that endpoint and by no other") and C02's converse ("every registered endpoint is
/// reachable"), for one accepted registration: EVERY request path and method name finds, at the node the walk
/// reaches and at its trailing-wildcard child, what it found before -- plus the new endpoint iff the method is the
/// new endpoint's and the path matches its template.
pub proof fn registration_theorem<C: ServerContext>(root0: HttpRouterNode<C>, tm: Seq<Seq<char>>, root1: HttpRouterNode<C>, e: ApiEndpoint<C>, mk: String)
    requires
        reg(root0, tm, Set::empty(), mk) is Some,       // HttpRouter::insert returned (V14 contract, first clause)
        ins_rel(Some(root0), tm, root1, e, mk),         // ... and this is what it did (V14 contract, third clause)
    ensures
        forall|p: Seq<String>, k: String| #![trigger hn(Some(root1), p, Map::empty(), k)]
            hn(Some(root1), p, Map::empty(), k) == hn(Some(root0), p, Map::empty(), k) + one_if(k == mk && wmatch(tm, p), e), // @after_registration_every_lookup_finds_the_old_endpoints_plus_the_new_one_iff_matched
        forall|p: Seq<String>, k: String| #![trigger hw(Some(root1), p, Map::empty(), k)]
            hw(Some(root1), p, Map::empty(), k) == hw(Some(root0), p, Map::empty(), k) + one_if(k == mk && wend(tm, p), e), // @likewise_for_the_empty_wildcard_remainder
{
    accepted_kinds_ok(root0, tm, Set::empty(), mk);
    assert forall|p: Seq<String>, k: String| #![trigger hn(Some(root1), p, Map::empty(), k)]
        hn(Some(root1), p, Map::empty(), k) == hn(Some(root0), p, Map::empty(), k) + one_if(k == mk && wmatch(tm, p), e) by {
        lookup_after_insert(Some(root0), tm, root1, e, mk, p, Map::empty(), k);
    }
    assert forall|p: Seq<String>, k: String| #![trigger hw(Some(root1), p, Map::empty(), k)]
        hw(Some(root1), p, Map::empty(), k) == hw(Some(root0), p, Map::empty(), k) + one_if(k == mk && wend(tm, p), e) by {
        lookup_after_insert(Some(root0), tm, root1, e, mk, p, Map::empty(), k);
    }
}

/// a request path that matches the template (for C02: "every registered endpoint is reachable by at least one request")
pub open spec fn witness_path(tm: Seq<Seq<char>>) -> Seq<String>
    decreases tm.len()
{
    if tm.len() == 0 { Seq::empty() } else {
        match seg_of(tm[0]) {
            PathSegment::Literal(l) => seq![l] + witness_path(tm.skip(1)),
            PathSegment::VarnameSegment(v) => seq![v] + witness_path(tm.skip(1)),   // any segment will do
            PathSegment::VarnameWildcard(v) => Seq::empty(),
        }
    }
}
pub proof fn every_template_has_a_matching_path(tm: Seq<Seq<char>>)
    ensures wmatch(tm, witness_path(tm)) || wend(tm, witness_path(tm)) // @every_registered_endpoint_is_reachable
    decreases tm.len()
{
    if tm.len() > 0 {
        every_template_has_a_matching_path(tm.skip(1));
        let w = witness_path(tm);
        match seg_of(tm[0]) {
            PathSegment::Literal(l) => { assert(w.skip(1) =~= witness_path(tm.skip(1))); assert(w[0] == l); },
            PathSegment::VarnameSegment(v) => { assert(w.skip(1) =~= witness_path(tm.skip(1))); },
            PathSegment::VarnameWildcard(v) => {},
        }
    }
}

/// C01: "The outcome depends only on the set of registered endpoints and the request, never on the order of
/// registration" -- two accepted registrations in either order leave, for every path and method name, the same
/// endpoints (as a multiset; which one of them serves a version does not depend on their order: lemma unique_match
/// over wf_node's pairwise-disjoint ranges)
pub proof fn two_registrations_commute<C: ServerContext>(root0: HttpRouterNode<C>,
    tm1: Seq<Seq<char>>, e1: ApiEndpoint<C>, m1: String, tm2: Seq<Seq<char>>, e2: ApiEndpoint<C>, m2: String,
    ra: HttpRouterNode<C>, rab: HttpRouterNode<C>, rb: HttpRouterNode<C>, rba: HttpRouterNode<C>, p: Seq<String>, k: String)
    requires
        reg(root0, tm1, Set::empty(), m1) is Some, ins_rel(Some(root0), tm1, ra, e1, m1),
        reg(ra, tm2, Set::empty(), m2) is Some, ins_rel(Some(ra), tm2, rab, e2, m2),
        reg(root0, tm2, Set::empty(), m2) is Some, ins_rel(Some(root0), tm2, rb, e2, m2),
        reg(rb, tm1, Set::empty(), m1) is Some, ins_rel(Some(rb), tm1, rba, e1, m1),
    ensures
        hn(Some(rab), p, Map::empty(), k).to_multiset() == hn(Some(rba), p, Map::empty(), k).to_multiset(), // @registration_order_does_not_matter
        hw(Some(rab), p, Map::empty(), k).to_multiset() == hw(Some(rba), p, Map::empty(), k).to_multiset(),
{
    registration_theorem(root0, tm1, ra, e1, m1);
    registration_theorem(ra, tm2, rab, e2, m2);
    registration_theorem(root0, tm2, rb, e2, m2);
    registration_theorem(rb, tm1, rba, e1, m1);
    let base = hn(Some(root0), p, Map::empty(), k);
    let x1 = one_if(k == m1 && wmatch(tm1, p), e1);
    let x2 = one_if(k == m2 && wmatch(tm2, p), e2);
    assert(hn(Some(ra), p, Map::empty(), k) == base + x1);
    assert(hn(Some(rab), p, Map::empty(), k) == base + x1 + x2);
    assert(hn(Some(rb), p, Map::empty(), k) == base + x2);
    assert(hn(Some(rba), p, Map::empty(), k) == base + x2 + x1);
    vstd::seq_lib::lemma_multiset_commutative(base, x1);
    vstd::seq_lib::lemma_multiset_commutative(base + x1, x2);
    vstd::seq_lib::lemma_multiset_commutative(base, x2);
    vstd::seq_lib::lemma_multiset_commutative(base + x2, x1);
    assert((base + x1 + x2).to_multiset() =~= (base + x2 + x1).to_multiset());
    let wbase = hw(Some(root0), p, Map::empty(), k);
    let y1 = one_if(k == m1 && wend(tm1, p), e1);
    let y2 = one_if(k == m2 && wend(tm2, p), e2);
    assert(hw(Some(ra), p, Map::empty(), k) == wbase + y1);
    assert(hw(Some(rab), p, Map::empty(), k) == wbase + y1 + y2);
    assert(hw(Some(rb), p, Map::empty(), k) == wbase + y2);
    assert(hw(Some(rba), p, Map::empty(), k) == wbase + y2 + y1);
    vstd::seq_lib::lemma_multiset_commutative(wbase, y1);
    vstd::seq_lib::lemma_multiset_commutative(wbase + y1, y2);
    vstd::seq_lib::lemma_multiset_commutative(wbase, y2);
    vstd::seq_lib::lemma_multiset_commutative(wbase + y2, y1);
    assert((wbase + y1 + y2).to_multiset() =~= (wbase + y2 + y1).to_multiset());
}

// ---- whole registration histories ----
#[verifier::reject_recursive_types(C)]
pub struct Registration<C: ServerContext> { pub tm: Seq<Seq<char>>, pub e: ApiEndpoint<C>, pub mk: String }
/// roots[0] --regs[0]--> roots[1] --regs[1]--> ... : every step is an ACCEPTED HttpRouter::insert (its contract)
pub open spec fn history<C: ServerContext>(roots: Seq<HttpRouterNode<C>>, regs: Seq<Registration<C>>) -> bool {
    &&& roots.len() == regs.len() + 1
    &&& forall|i: int| 0 <= i < regs.len() ==> reg(#[trigger] roots[i], regs[i].tm, Set::empty(), regs[i].mk) is Some
            && ins_rel(Some(roots[i]), regs[i].tm, roots[i + 1], regs[i].e, regs[i].mk)
}
/// what the registrations contribute to the lookup of path `p` under method name `k` (at the reached node): each
/// endpoint whose method is `k` and whose template `p` leads down
pub open spec fn contributed<C: ServerContext>(regs: Seq<Registration<C>>, p: Seq<String>, k: String) -> vstd::multiset::Multiset<ApiEndpoint<C>>
    decreases regs.len()
{
    if regs.len() == 0 { vstd::multiset::Multiset::empty() }
    else { contributed(regs.drop_last(), p, k).add(one_if(k == regs.last().mk && wmatch(regs.last().tm, p), regs.last().e).to_multiset()) }
}
/// C01 ("The outcome depends only on the set of registered endpoints and the request"): after ANY sequence of accepted
/// registrations, what a lookup finds is what was there at the start plus exactly the matching registered endpoints
pub proof fn after_any_history<C: ServerContext>(roots: Seq<HttpRouterNode<C>>, regs: Seq<Registration<C>>, p: Seq<String>, k: String)
    requires history(roots, regs)
    ensures hn(Some(roots.last()), p, Map::empty(), k).to_multiset()
        == hn(Some(roots[0]), p, Map::empty(), k).to_multiset().add(contributed(regs, p, k)), // @a_lookup_finds_exactly_the_matching_registered_endpoints
    decreases regs.len()
{
    if regs.len() == 0 {
        assert(hn(Some(roots[0]), p, Map::empty(), k).to_multiset().add(vstd::multiset::Multiset::empty()) =~= hn(Some(roots[0]), p, Map::empty(), k).to_multiset());
    } else {
        let n = regs.len() as int;
        let roots0 = roots.drop_last();
        let regs0 = regs.drop_last();
        assert(history(roots0, regs0)) by {
            assert forall|i: int| 0 <= i < regs0.len() implies reg(#[trigger] roots0[i], regs0[i].tm, Set::empty(), regs0[i].mk) is Some
                && ins_rel(Some(roots0[i]), regs0[i].tm, roots0[i + 1], regs0[i].e, regs0[i].mk) by {
                assert(roots0[i] == roots[i] && roots0[i + 1] == roots[i + 1] && regs0[i] == regs[i]);
            }
        }
        after_any_history(roots0, regs0, p, k);
        let last = regs.last();
        assert(roots0.last() == roots[n - 1]);
        assert(roots0[0] == roots[0]);
        registration_theorem(roots[n - 1], last.tm, roots[n], last.e, last.mk);
        let before = hn(Some(roots[n - 1]), p, Map::empty(), k);
        let x = one_if(k == last.mk && wmatch(last.tm, p), last.e);
        assert(hn(Some(roots[n]), p, Map::empty(), k) == before + x);
        vstd::seq_lib::lemma_multiset_commutative(before, x);
        assert(hn(Some(roots.last()), p, Map::empty(), k).to_multiset()
            =~= hn(Some(roots[0]), p, Map::empty(), k).to_multiset().add(contributed(regs, p, k)));
    }
}
/// ... and that contribution does not depend on the order: swapping two neighbouring registrations leaves it unchanged
/// (every reordering is a sequence of such swaps)
pub proof fn contribution_is_order_independent<C: ServerContext>(pre: Seq<Registration<C>>, a: Registration<C>, b: Registration<C>, p: Seq<String>, k: String)
    ensures contributed(pre.push(a).push(b), p, k) == contributed(pre.push(b).push(a), p, k) // @swapping_two_registrations_changes_nothing
{
    let ab = pre.push(a).push(b);
    let ba = pre.push(b).push(a);
    assert(ab.drop_last() =~= pre.push(a));
    assert(ba.drop_last() =~= pre.push(b));
    assert(pre.push(a).drop_last() =~= pre);
    assert(pre.push(b).drop_last() =~= pre);
    let xa = one_if(k == a.mk && wmatch(a.tm, p), a.e).to_multiset();
    let xb = one_if(k == b.mk && wmatch(b.tm, p), b.e).to_multiset();
    let c0 = contributed(pre, p, k);
    assert(ab.last() == b && ba.last() == a && pre.push(a).last() == a && pre.push(b).last() == b);
    assert(contributed(pre.push(a), p, k) == c0.add(xa));
    assert(contributed(pre.push(b), p, k) == c0.add(xb));
    assert(contributed(ab, p, k) == c0.add(xa).add(xb));
    assert(contributed(ba, p, k) == c0.add(xb).add(xa));
    assert(c0.add(xa).add(xb) =~= c0.add(xb).add(xa));
}

/// an endpoint already registered for the same path and method stands in the way of `ver`
pub open spec fn blocks<C: ServerContext>(h: ApiEndpoint<C>, ver: ApiEndpointVersions) -> bool {
    version_conflict(h, ver) || f2(h, ver)
}
/// C02: the registration runs into one of the conflicts named by the property
pub open spec fn conflicting<C: ServerContext>(root: HttpRouterNode<C>, tmpl: Seq<Seq<char>>, m: String, ver: ApiEndpointVersions) -> bool {
    match reg(root, tmpl, Set::empty(), m) {
        None => true,
        Some(hs) => exists|i: int| 0 <= i < hs.len() && #[trigger] blocks(hs[i], ver),
    }
}

proof fn sentinel_v14_prelude_consistent()
    ensures false
{
    broadcast use vle_total, vle_antisym, vle_trans, ax_string_ext, ax_string_obeys_cmp, ax_method_names_are_header_values;
}
proof fn sentinel_reg_not_always_none<C: ServerContext>(n: HttpRouterNode<C>, segs: Seq<Seq<char>>, m: String)
    ensures reg(n, segs, Set::empty(), m) is None
{}
proof fn sentinel_reg_not_always_some<C: ServerContext>(n: HttpRouterNode<C>, segs: Seq<Seq<char>>, m: String)
    ensures reg(n, segs, Set::empty(), m) is Some
{}
