use vstd::prelude::*;
use vstd::std_specs::cmp::*;
use vstd::std_specs::iter::IteratorSpec;
use core::cmp::Ordering;
use std::collections::BTreeMap;
use std::collections::BTreeSet;
use std::sync::Arc;
//@ items
//@ include ../_common/prelude_version.rs
//@ include ../_common/prelude_http.rs
//@ include ../_common/prelude_error.rs
//@ include ../_common/prelude_router.rs

// ---- TRUSTED (V14) ----
/// W9b: `panic!(..)` in HttpRouter::insert / insert_var IS the rejection of a registration.  The stand-in never
/// returns; its precondition demands that the rejection be justified by one of C02's conflicts.
#[verifier::external_body]
pub fn reject_registration(Ghost(justified): Ghost<bool>) -> !
    requires justified
{ panic!() }

/// router.rs: route_path_to_segments (splits a path TEMPLATE at '/', dropping empty pieces) and
/// PathSegment::from (`{name}` / `{name:.*}` / literal) are string code out of Verus's reach: uninterpreted functions
/// (unit V12 verifies the real route_path_to_segments: template_of(path) is the sequence of pieces between slashes after
/// the leading one, without a trailing empty piece, each non-empty; malformed templates are refused by a panic)
pub uninterp spec fn template_of(path: Seq<char>) -> Seq<Seq<char>>;
pub open spec fn texts(s: Seq<&str>) -> Seq<Seq<char>> { Seq::new(s.len(), |i: int| s[i]@) }
#[verifier::external_body]
pub fn route_path_to_segments(path: &str) -> (r: Vec<&str>)
    ensures texts(r@) == template_of(path@)
{ unimplemented!() }
/// (unit V12 verifies the real PathSegment::from as a composition of std string functions; K15 on short real strings)
pub uninterp spec fn seg_of(s: Seq<char>) -> PathSegment;
impl PathSegment {
    #[verifier::external_body]
    pub fn from(segment: &str) -> (r: PathSegment) ensures r == seg_of(segment@) { unimplemented!() }
}

/// `map.entry(k).or_insert_with(f)` and `map.entry(k).or_default()` (W1: written as one call each)
pub trait BTreeEntryExt<V>: Sized {
    spec fn mview(&self) -> Map<String, V>;
    fn entry_or_insert_with<F: FnOnce() -> V>(&mut self, k: String, f: F) -> (r: &mut V)
        requires call_requires(f, ()),
        ensures
            old(self).mview().contains_key(k) ==> *r == old(self).mview()[k],
            !old(self).mview().contains_key(k) ==> call_ensures(f, (), *r),
            final(self).mview() == old(self).mview().insert(k, *final(r));
}
impl<V> BTreeEntryExt<V> for BTreeMap<String, V> {
    open spec fn mview(&self) -> Map<String, V> { self@ }
    #[verifier::external_body]
    fn entry_or_insert_with<F: FnOnce() -> V>(&mut self, k: String, f: F) -> (r: &mut V) { unimplemented!() }
}
pub trait BTreeEntryDefaultExt<T>: Sized {
    spec fn mview2(&self) -> Map<String, Vec<T>>;
    fn entry_or_default(&mut self, k: String) -> (r: &mut Vec<T>)
        ensures
            old(self).mview2().contains_key(k) ==> *r == old(self).mview2()[k],
            !old(self).mview2().contains_key(k) ==> r@.len() == 0,
            final(self).mview2() == old(self).mview2().insert(k, *final(r));
}
impl<T> BTreeEntryDefaultExt<T> for BTreeMap<String, Vec<T>> {
    open spec fn mview2(&self) -> Map<String, Vec<T>> { self@ }
    #[verifier::external_body]
    fn entry_or_default(&mut self, k: String) -> (r: &mut Vec<T>) { unimplemented!() }
}
/// `*new_varname != *varname` compares a `str` (String derefs) with a `String`: equality of the characters
pub assume_specification[ <str as PartialEq<String>>::ne ](a: &str, b: &String) -> (r: bool)
    ensures r == (a@ != b@);
impl Clone for Method {
    #[verifier::external_body]
    fn clone(&self) -> (r: Method) ensures r == *self { unimplemented!() }
}
/// an upper-cased HTTP method name is a legal header value (http::Method::as_str is a token)
pub broadcast axiom fn ax_method_names_are_header_values(m: Method)
    ensures #[trigger] header_value_ok(upper(method_text(m)));
