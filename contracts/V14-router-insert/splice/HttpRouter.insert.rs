//@ attrs
#[verifier::exec_allows_no_decreases_clause]
//@ contract
        requires
            wf_node(*old(self).root),
            wf(endpoint.versions),
        ensures
            // C02 (reached the end without rejecting => none of the trie-level conflicts)
            (match reg(*old(self).root, template_of(endpoint.path@), Set::empty(), upper_string(method_text(endpoint.method))) {
                None => false,
                Some(hs) => forall|i: int| 0 <= i < hs.len() ==> !version_conflict(#[trigger] hs[i], endpoint.versions) || f2(hs[i], endpoint.versions),
            }), // @accepted_only_without_conflict
            // "indicates whether this router contains any endpoints that are constrained by version" (the server refuses
            // to serve a versioned table without a version policy, so that no request is routed with version None
            // to whichever of several version-split endpoints happens to be stored first): the flag is sticky and
            // is raised by every endpoint whose range is not `All`
            final(self).has_versioned_routes == (old(self).has_versioned_routes || !(endpoint.versions is All)), // @versioned_routes_flag_is_sticky_and_raised_by_a_versioned_endpoint
            // the representation invariant lookup_route (V10) relies on is maintained
            wf_node(*final(self).root), // @insert_keeps_the_trie_wellformed
            // what the registration does to the trie: the endpoint is appended at the end of its template's path,
            // missing nodes are created on the way, nothing else changes
            ins_rel(Some(*old(self).root), template_of(endpoint.path@), *final(self).root, endpoint, upper_string(method_text(endpoint.method))), // @insert_adds_exactly_this_endpoint_at_its_path
//@ body_start
        broadcast use ax_string_ext, ax_string_obeys_cmp, ax_upper_string, ax_method_names_are_header_values;
        let ghost root0 = *self.root;
        let ghost tmpl = template_of(endpoint.path@);
        let ghost mname = upper_string(method_text(endpoint.method));
        let ghost ver = endpoint.versions;
        let ghost e0 = endpoint;
        // a rejection is justified exactly when C02 names a conflict
        let ghost why = conflicting(root0, tmpl, mname, ver);
        let ghost mut term = false;
//@ closure 0
|| -> (b: Box<HttpRouterNode<Context>>) ensures fresh_node(*b)
//@ after "&mut self.root;" 0
        // prophecy: the value the root will have once this cursor (and every cursor derived from it) is released
        let ghost fin = **final(node);
        let ghost mut rem_head = IteratorSpec::remaining(&all_segments);
        proof { assert(varnames@ =~= Set::<String>::empty()); }
//@ loop 0 invariant
            invariant
                why == conflicting(root0, tmpl, mname, ver),
                rem_head == IteratorSpec::remaining(&all_segments),
                wf_node(**node) && (term ==> node.edges is None), // @inv_current_node_wellformed
                (wf_node(**final(node)) && (term ==> final(node).edges is None)) ==> wf_node(fin), // @inv_wellformed_below_implies_wellformed_root
                term ==> IteratorSpec::remaining(&all_segments).len() == 0,
                reg(root0, tmpl, Set::empty(), mname) == reg(**node, texts(IteratorSpec::remaining(&all_segments)), varnames@, mname), // @inv_rest_of_the_registration_from_here
                ins_rel(Some(**node), texts(IteratorSpec::remaining(&all_segments)), **final(node), e0, mname)
                    ==> ins_rel(Some(root0), tmpl, fin, e0, mname), // @inv_insertion_below_implies_insertion_at_root
            ensures
                IteratorSpec::remaining(&all_segments).len() == 0,
//@ loop 0 body_start
            broadcast use ax_string_ext, ax_string_obeys_cmp;
            let ghost rem_after = IteratorSpec::remaining(&all_segments);
            let ghost node0 = **node;
            let ghost fin_old = **final(node);
            let ghost seen0 = varnames@;
            let ghost seg0 = seg_of(raw_segment@);
            let ghost before = texts(seq![raw_segment] + rem_after);
            proof {
                assert(rem_head =~= seq![raw_segment] + rem_after);
                assert(before.skip(1) =~= texts(rem_after));
                assert(before[0] == raw_segment@);
                assert(!term);
                assert(reg(root0, tmpl, Set::empty(), mname) == reg(node0, before, seen0, mname));
                assert(before.len() > 0);
                assert(seg_of(before[0]) == seg0);
                reg_step(node0, before, seen0, mname);
            }
//@ loop 0 body_end
            proof {
                term = seg0 is VarnameWildcard;
                rem_head = IteratorSpec::remaining(&all_segments);
            }
            proof {
                if fresh_node(**node) {
                    reg_of_fresh(**node, texts(IteratorSpec::remaining(&all_segments)), varnames@, mname);
                    ins_rel_fresh(**node, texts(IteratorSpec::remaining(&all_segments)), **final(node), e0, mname);
                }
                assert(seg0 is VarnameWildcard ==> texts(IteratorSpec::remaining(&all_segments)) =~= Seq::<Seq<char>>::empty());
                assert(forall|k: String| #[trigger] handlers_for(fin_old, k) == hs_of(Some(node0), k));
                assert(ins_rel(Some(**node), texts(IteratorSpec::remaining(&all_segments)), **final(node), e0, mname)
                    ==> ins_rel(Some(node0), before, fin_old, e0, mname));
            }
//@ before "let existing_handlers" 0
        proof { ax_string_ext(methodname, mname); }
        let ghost leaf0 = **node;
//@ loop_iter 1 it
//@ loop 1 invariant
            invariant
                wf(endpoint.versions),
                existing_handlers@ == handlers_for(leaf0, mname),
                forall|j: int| 0 <= j < existing_handlers@.len() ==> wf(#[trigger] existing_handlers@[j].versions),
                reg(root0, tmpl, Set::empty(), mname) == Some(handlers_for(leaf0, mname)),
                why == conflicting(root0, tmpl, mname, ver),
                ver == endpoint.versions,
                forall|j: int| 0 <= j < it.index@ ==> !version_conflict(#[trigger] existing_handlers@[j], ver) || f2(existing_handlers@[j], ver), // @inv_no_conflict_with_the_endpoints_seen_so_far
//@ loop 1 body_start
            assert(*handler == existing_handlers@[it.index@ as int]);
            let ghost idx = it.index@ as int;
//@ before "if handler.versions ==" 0
                proof {
                    let hs = handlers_for(leaf0, mname);
                    assert(0 <= idx < hs.len());
                    assert(reg(root0, tmpl, Set::empty(), mname) == Some(hs));
                    assert(blocks(hs[idx], ver));
                    let hs2 = reg(root0, tmpl, Set::empty(), mname)->Some_0;
                    assert(hs2 == hs);
                    assert(blocks(hs2[idx], ver));
                    assert(exists|i: int| 0 <= i < hs2.len() && #[trigger] blocks(hs2[i], ver));
                    assert(conflicting(root0, tmpl, mname, ver));
                }
