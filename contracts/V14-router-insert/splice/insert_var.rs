//@ contract
        ensures
            !old(varnames)@.contains(*new_varname), // @repeated_variable_name_is_rejected
            final(varnames)@ == old(varnames)@.insert(*new_varname),
//@ body_start
        broadcast use ax_string_obeys_cmp;
        let ghost why = old(varnames)@.contains(*new_varname);
