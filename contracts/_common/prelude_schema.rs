// ---- TRUSTED: the dependency types this code reads and builds, with the fields it uses ----
#[verifier::external_body]
pub struct OpaqueV { _p: u8 }
/// serde_json::Value
pub enum Value { Null, Bool(bool), Number(OpaqueV), String(String), Array(OpaqueV), Object(OpaqueV) }
impl Clone for Value { #[verifier::external_body] fn clone(&self) -> (r: Value) ensures r == *self { unimplemented!() } }
/// schemars::schema::*
pub enum InstanceType { Null, Boolean, Object, Array, Number, String, Integer }
pub enum SingleOrVec<T> { Single(Box<T>), Vec(Vec<T>) }
pub struct Metadata {
    pub id: Option<String>, pub title: Option<String>, pub description: Option<String>, pub default: Option<Value>,
    pub deprecated: bool, pub read_only: bool, pub write_only: bool, pub examples: Vec<Value>,
}
pub struct SubschemaValidation {
    pub all_of: Option<Vec<JSchema>>, pub any_of: Option<Vec<JSchema>>, pub one_of: Option<Vec<JSchema>>, pub not: Option<Box<JSchema>>,
    pub if_schema: Option<Box<JSchema>>, pub then_schema: Option<Box<JSchema>>, pub else_schema: Option<Box<JSchema>>,
}
#[verifier::external_body] pub struct NumberValidation { _p: u8 }
pub struct StringValidation { pub max_length: Option<u32>, pub min_length: Option<u32>, pub pattern: Option<String> }
pub struct ArrayValidation {
    pub items: Option<SingleOrVec<JSchema>>, pub additional_items: Option<Box<JSchema>>, pub max_items: Option<u32>, pub min_items: Option<u32>,
    pub unique_items: Option<bool>, pub contains: Option<Box<JSchema>>,
}
/// schemars::Map<String, Schema> / Set<String> of an object validation: reached through lookups only
#[verifier::external_body] pub struct PropMap { _p: u8 }
#[verifier::external_body] pub struct NameSet { _p: u8 }
pub struct ObjectValidation {
    pub max_properties: Option<u32>, pub min_properties: Option<u32>, pub required: NameSet, pub properties: PropMap,
    pub pattern_properties: PropMap, pub additional_properties: Option<Box<JSchema>>, pub property_names: Option<Box<JSchema>>,
}
/// schemars::Map<String, Value> (extensions): only lookups by key and the "x-" filter are used
#[verifier::external_body]
pub struct ExtMap { _p: u8 }
pub uninterp spec fn ext_get(m: ExtMap, key: Seq<char>) -> Option<Value>;
impl ExtMap {
    #[verifier::external_body]
    pub fn get(&self, key: &str) -> (r: Option<&Value>)
        ensures (r is Some) == (ext_get(*self, key@) is Some), r is Some ==> *r->Some_0 == ext_get(*self, key@)->Some_0 { unimplemented!() }
}
pub struct SchemaObject {
    pub metadata: Option<Box<Metadata>>,
    pub instance_type: Option<SingleOrVec<InstanceType>>,
    pub format: Option<String>,
    pub enum_values: Option<Vec<Value>>,
    pub const_value: Option<Value>,
    pub subschemas: Option<Box<SubschemaValidation>>,
    pub number: Option<Box<NumberValidation>>,
    pub string: Option<Box<StringValidation>>,
    pub array: Option<Box<ArrayValidation>>,
    pub object: Option<Box<ObjectValidation>>,
    pub reference: Option<String>,
    pub extensions: ExtMap,
}
pub enum JSchema { Bool(bool), Object(SchemaObject) }
/// openapiv3::*
#[verifier::external_body]
pub struct OExtMap { _p: u8 }
/// the entries of the OpenAPI extension map, as a function of key
pub uninterp spec fn oext_get(m: OExtMap, key: Seq<char>) -> Option<Value>;
pub uninterp spec fn starts_with_x(key: Seq<char>) -> bool;
pub enum ReferenceOr<T> { Reference { reference: String }, Item(T) }
pub struct SchemaData {
    pub nullable: bool, pub read_only: bool, pub write_only: bool, pub deprecated: bool,
    pub external_docs: Option<OpaqueV>, pub example: Option<Value>, pub title: Option<String>, pub description: Option<String>,
    pub discriminator: Option<OpaqueV>, pub default: Option<Value>, pub extensions: OExtMap,
}
pub open spec fn empty_data(d: SchemaData) -> bool {
    !d.nullable && !d.read_only && !d.write_only && !d.deprecated && d.external_docs is None && d.example is None
    && d.title is None && d.description is None && d.discriminator is None && d.default is None
    && forall|k: Seq<char>| oext_get(d.extensions, k) is None
}
impl Default for SchemaData {
    #[verifier::external_body]
    fn default() -> (r: SchemaData) ensures empty_data(r) { unimplemented!() }
}
#[verifier::external_body] pub struct AnySchema { _p: u8 }
pub uninterp spec fn any_default() -> AnySchema;
impl Default for AnySchema { #[verifier::external_body] fn default() -> (r: AnySchema) ensures r == any_default() { unimplemented!() } }
pub enum VariantOrUnknownOrEmpty<T> { Item(T), Unknown(String), Empty }
pub enum StringFormat { Date, DateTime, Password, Byte, Binary }
pub struct StringType { pub format: VariantOrUnknownOrEmpty<StringFormat>, pub pattern: Option<String>, pub enumeration: Vec<Option<String>>, pub min_length: Option<usize>, pub max_length: Option<usize> }
impl Default for StringType {
    #[verifier::external_body]
    fn default() -> (r: StringType) ensures r.format is Empty, r.pattern is None, r.enumeration@.len() == 0, r.min_length is None, r.max_length is None { unimplemented!() }
}
pub struct BooleanType { pub enumeration: Vec<Option<bool>> }
pub struct ArrayType { pub items: Option<ReferenceOr<Box<OSchema>>>, pub min_items: Option<usize>, pub max_items: Option<usize>, pub unique_items: bool }
/// openapiv3's IndexMap<String, ReferenceOr<Box<Schema>>> of an object type: reached through lookups only
#[verifier::external_body] pub struct OPropMap { _p: u8 }
pub enum AdditionalProperties { Any(bool), Schema(Box<ReferenceOr<OSchema>>) }
pub struct ObjectType {
    pub properties: OPropMap, pub required: Vec<String>, pub additional_properties: Option<AdditionalProperties>,
    pub min_properties: Option<usize>, pub max_properties: Option<usize>,
}
pub enum Type { String(StringType), Number(OpaqueV), Integer(OpaqueV), Object(ObjectType), Array(ArrayType), Boolean(BooleanType) }
pub enum SchemaKind {
    Type(Type), OneOf { one_of: Vec<ReferenceOr<OSchema>> }, AllOf { all_of: Vec<ReferenceOr<OSchema>> },
    AnyOf { any_of: Vec<ReferenceOr<OSchema>> }, Not { not: Box<ReferenceOr<OSchema>> }, Any(AnySchema),
}
pub struct OSchema { pub schema_data: SchemaData, pub schema_kind: SchemaKind }

