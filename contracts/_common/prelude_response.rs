// ---- TRUSTED (shared): response side of the `http`/`hyper` stand-ins (assumption A6) ----
// dropshot::Body (body.rs) and hyper::Response<Body>, http::response::Builder as ghost records (assumption A6)
pub struct Body { pub bytes: Ghost<Seq<char>> }
impl From<String> for Body {
    #[verifier::external_body]
    fn from(s: String) -> (b: Body) ensures b.bytes@ == s@ { unimplemented!() }
}
pub struct Response { pub status: StatusCode, pub hdrs: HeaderMap, pub body: Body }
impl Response {
    #[verifier::external_body]
    pub fn status(&self) -> (r: StatusCode) ensures r == self.status { unimplemented!() }
    #[verifier::external_body]
    pub fn headers_mut(&mut self) -> (r: &mut HeaderMap)
        ensures *r == old(self).hdrs, *final(r) == final(self).hdrs, final(self).status == old(self).status, final(self).body == old(self).body { unimplemented!() }
}
#[verifier::external_body]
#[derive(Debug)]
pub struct HttpBuildError { _p: u8 }
/// http::response::Builder; `failed` models its sticky error state
pub struct Builder { pub status: StatusCode, pub hdrs: HeaderMap, pub failed: bool }
/// hyper::Response::builder()
#[verifier::external_body]
pub fn response_builder() -> (b: Builder) ensures b.status.code == 200, hm_view(b.hdrs) == Seq::<(Seq<char>, Seq<char>)>::empty(), !b.failed { unimplemented!() }
impl Builder {
    #[verifier::external_body]
    pub fn headers_mut(&mut self) -> (r: Option<&mut HeaderMap>)
        ensures (r is Some) == !old(self).failed,
            r is Some ==> *r->Some_0 == old(self).hdrs && *final(r->Some_0) == final(self).hdrs,
            final(self).status == old(self).status, final(self).failed == old(self).failed { unimplemented!() }
    #[verifier::external_body]
    pub fn status(self, s: StatusCode) -> (b: Builder) ensures b.status == s, b.hdrs == self.hdrs, b.failed == self.failed { unimplemented!() }
    /// Builder::header appends; it fails only if name/value conversion fails, which cannot happen for the
    /// constant names and for values satisfying header_value_ok
    #[verifier::external_body]
    pub fn header<K: HeaderText, V: HeaderText>(self, k: K, v: V) -> (b: Builder)
        ensures b.status == self.status,
            b.failed == (self.failed || !header_value_ok(v.text())),
            !b.failed ==> hm_view(b.hdrs) == hm_view(self.hdrs).push((k.text(), v.text())) { unimplemented!() }
    #[verifier::external_body]
    pub fn body(self, body: Body) -> (r: Result<Response, HttpBuildError>)
        ensures (r is Ok) == !self.failed,
            r is Ok ==> r->Ok_0.status == self.status && r->Ok_0.hdrs == self.hdrs && r->Ok_0.body == body { unimplemented!() }
}
pub broadcast axiom fn ax_constant_header_values_ok()
    ensures #[trigger] header_value_ok("application/json"@);

// serde_json::to_string_pretty on HttpErrorResponseBody: some function of the three fields, total
pub uninterp spec fn json_pretty(rid: Seq<char>, code: Option<Seq<char>>, msg: Seq<char>) -> Seq<char>;
pub open spec fn optv(o: Option<String>) -> Option<Seq<char>> { match o { Some(s) => Some(s@), None => None } }
#[verifier::external_body]
#[derive(Debug)]
pub struct SerdeJsonError { _p: u8 }


#[verifier::external_body]
pub fn to_string_pretty(b: &HttpErrorResponseBody) -> (r: Result<String, SerdeJsonError>)
    ensures r is Ok, r->Ok_0@ == json_pretty(b.request_id@, optv(b.error_code), b.message@) { unimplemented!() }

