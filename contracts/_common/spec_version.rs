// ---- CHECKED: spec functions written from the statement of C05, and lemmas ----

pub closed spec fn vlt(a: Version, b: Version) -> bool { vle(a, b) && a != b }

/// C05: "'from A' is served for every version >= A, 'until B' for every version
/// < B, 'from A until B' for A <= v < B (exactly A when A = B), and an
/// unrestricted one for every version"
pub closed spec fn in_range(r: ApiEndpointVersions, v: Version) -> bool {
    match r {
        ApiEndpointVersions::All => true,
        ApiEndpointVersions::From(a) => vle(a, v),
        ApiEndpointVersions::Until(b) => vlt(v, b),
        ApiEndpointVersions::FromUntil(p) =>
            if p.earliest == p.until { v == p.earliest } else { vle(p.earliest, v) && vlt(v, p.until) },
    }
}

/// C05: "some version belongs to both"
pub closed spec fn shared(a: ApiEndpointVersions, b: ApiEndpointVersions) -> bool {
    exists|v: Version| in_range(a, v) && in_range(b, v)
}

pub closed spec fn mk_from_until(earliest: Version, until: Version) -> ApiEndpointVersions {
    ApiEndpointVersions::FromUntil(OrderedVersionPair { earliest, until })
}

/// the ordered-pair type invariant (established by `from_until`, the only constructor)
pub closed spec fn wf(r: ApiEndpointVersions) -> bool {
    match r { ApiEndpointVersions::FromUntil(p) => vle(p.earliest, p.until), _ => true }
}

/// known finding F2 (known_findings.txt `empty_until`): `Until(u)` with no version below `u`
pub closed spec fn empty_until(r: ApiEndpointVersions) -> bool {
    match r { ApiEndpointVersions::Until(u) => !(exists|v: Version| vlt(v, u)), _ => false }
}

/// Inputs on which `overlaps_with` is *known* to disagree with `shared`
/// (each class is one entry of /verif/known_findings.txt; the strict variant of
/// the contract has no such carve-out and tells whether the finding is still there).
pub closed spec fn known_exception(a: ApiEndpointVersions, b: ApiEndpointVersions) -> bool {
    ||| (empty_until(a) && (b is All || b is Until))
    ||| (empty_until(b) && (a is All || a is Until))
}

pub closed spec fn vmax(a: Version, b: Version) -> Version { if vle(a, b) { b } else { a } }
pub closed spec fn vmin(a: Version, b: Version) -> Version { if vle(a, b) { a } else { b } }

/// closed form of "some version lies in both", per pair of kinds, over end points only
pub closed spec fn overlap_closed(a: ApiEndpointVersions, b: ApiEndpointVersions) -> bool {
    match (a, b) {
        (ApiEndpointVersions::All, ApiEndpointVersions::Until(u)) => exists|v: Version| vlt(v, u),
        (ApiEndpointVersions::Until(u), ApiEndpointVersions::All) => exists|v: Version| vlt(v, u),
        (ApiEndpointVersions::All, _) => true,
        (_, ApiEndpointVersions::All) => true,
        (ApiEndpointVersions::From(x), ApiEndpointVersions::From(y)) => true,
        (ApiEndpointVersions::Until(x), ApiEndpointVersions::Until(y)) => exists|v: Version| vlt(v, vmin(x, y)),
        (ApiEndpointVersions::From(x), ApiEndpointVersions::Until(u)) => vlt(x, u),
        (ApiEndpointVersions::Until(u), ApiEndpointVersions::From(x)) => vlt(x, u),
        (ApiEndpointVersions::From(x), ApiEndpointVersions::FromUntil(p)) => in_range(b, vmax(x, p.earliest)),
        (ApiEndpointVersions::FromUntil(p), ApiEndpointVersions::From(x)) => in_range(a, vmax(x, p.earliest)),
        (ApiEndpointVersions::Until(u), ApiEndpointVersions::FromUntil(p)) => vlt(p.earliest, u),
        (ApiEndpointVersions::FromUntil(p), ApiEndpointVersions::Until(u)) => vlt(p.earliest, u),
        (ApiEndpointVersions::FromUntil(p), ApiEndpointVersions::FromUntil(q)) =>
            in_range(a, q.earliest) || in_range(b, p.earliest),
    }
}

/// `shared` has a quantifier-free closed form; the witness is always an end point,
/// which is why no density/discreteness axiom is needed.
proof fn overlap_closed_form(a: ApiEndpointVersions, b: ApiEndpointVersions)
    requires wf(a), wf(b)
    ensures shared(a, b) == overlap_closed(a, b) // @closed_form
{
    broadcast use vle_total, vle_antisym, vle_trans;
    let some: Version = arbitrary();
    if overlap_closed(a, b) {
        match (a, b) {
            (ApiEndpointVersions::All, ApiEndpointVersions::Until(u)) => { let v = choose|v: Version| vlt(v, u); assert(in_range(a, v) && in_range(b, v)); }
            (ApiEndpointVersions::Until(u), ApiEndpointVersions::All) => { let v = choose|v: Version| vlt(v, u); assert(in_range(a, v) && in_range(b, v)); }
            (ApiEndpointVersions::All, ApiEndpointVersions::All) => { assert(in_range(a, some) && in_range(b, some)); }
            (ApiEndpointVersions::All, ApiEndpointVersions::From(x)) => { assert(in_range(a, x) && in_range(b, x)); }
            (ApiEndpointVersions::From(x), ApiEndpointVersions::All) => { assert(in_range(a, x) && in_range(b, x)); }
            (ApiEndpointVersions::All, ApiEndpointVersions::FromUntil(p)) => { assert(in_range(a, p.earliest) && in_range(b, p.earliest)); }
            (ApiEndpointVersions::FromUntil(p), ApiEndpointVersions::All) => { assert(in_range(a, p.earliest) && in_range(b, p.earliest)); }
            (ApiEndpointVersions::From(x), ApiEndpointVersions::From(y)) => { let v = vmax(x, y); assert(in_range(a, v) && in_range(b, v)); }
            (ApiEndpointVersions::Until(x), ApiEndpointVersions::Until(y)) => { let v = choose|v: Version| vlt(v, vmin(x, y)); assert(in_range(a, v) && in_range(b, v)); }
            (ApiEndpointVersions::From(x), ApiEndpointVersions::Until(u)) => { assert(in_range(a, x) && in_range(b, x)); }
            (ApiEndpointVersions::Until(u), ApiEndpointVersions::From(x)) => { assert(in_range(a, x) && in_range(b, x)); }
            (ApiEndpointVersions::From(x), ApiEndpointVersions::FromUntil(p)) => { let v = vmax(x, p.earliest); assert(in_range(a, v) && in_range(b, v)); }
            (ApiEndpointVersions::FromUntil(p), ApiEndpointVersions::From(x)) => { let v = vmax(x, p.earliest); assert(in_range(a, v) && in_range(b, v)); }
            (ApiEndpointVersions::Until(u), ApiEndpointVersions::FromUntil(p)) => { assert(in_range(a, p.earliest) && in_range(b, p.earliest)); }
            (ApiEndpointVersions::FromUntil(p), ApiEndpointVersions::Until(u)) => { assert(in_range(a, p.earliest) && in_range(b, p.earliest)); }
            (ApiEndpointVersions::FromUntil(p), ApiEndpointVersions::FromUntil(q)) => {
                if in_range(a, q.earliest) { assert(in_range(a, q.earliest) && in_range(b, q.earliest)); }
                else { assert(in_range(a, p.earliest) && in_range(b, p.earliest)); }
            }
        }
    }
    if shared(a, b) {
        let v = choose|v: Version| in_range(a, v) && in_range(b, v);
        match (a, b) {
            (ApiEndpointVersions::FromUntil(p), ApiEndpointVersions::FromUntil(q)) => {
                if vle(p.earliest, q.earliest) { assert(in_range(a, q.earliest)); } else { assert(in_range(b, p.earliest)); }
            }
            (ApiEndpointVersions::Until(x), ApiEndpointVersions::Until(y)) => { assert(vlt(v, vmin(x, y))); }
            _ => {}
        }
    }
}

/// two non-empty `Until` ranges always share a version (the smaller of two witnesses)
proof fn until_until_share(a: ApiEndpointVersions, b: ApiEndpointVersions)
    requires a is Until, b is Until, !empty_until(a), !empty_until(b)
    ensures overlap_closed(a, b) // @nonempty_untils_share
{
    broadcast use vle_total, vle_antisym, vle_trans;
    let x = a->Until_0; let y = b->Until_0;
    let v1 = choose|v: Version| vlt(v, x);
    let v2 = choose|v: Version| vlt(v, y);
    let v = vmin(v1, v2);
    assert(vlt(v, vmin(x, y)));
}

/// C05 "whichever of the two is registered first": the relation the contract of
/// `overlaps_with` pins the result to is symmetric, and so is the carve-out.
proof fn conflict_symmetric(a: ApiEndpointVersions, b: ApiEndpointVersions)
    ensures
        shared(a, b) == shared(b, a), // @shared_symmetric
        known_exception(a, b) == known_exception(b, a), // @carve_out_symmetric
{
    if shared(a, b) { let v = choose|v: Version| in_range(a, v) && in_range(b, v); assert(in_range(b, v) && in_range(a, v)); }
    if shared(b, a) { let v = choose|v: Version| in_range(b, v) && in_range(a, v); assert(in_range(a, v) && in_range(b, v)); }
}

/// C01/C02 (node level, any list length): among ranges that pairwise share no
/// version, at most one contains a given version -- so "the first match" does not
/// depend on the order of the list.
proof fn unique_match(rs: Seq<ApiEndpointVersions>, v: Version, i: int, j: int)
    requires
        forall|a: int, b: int| 0 <= a < b < rs.len() ==> !shared(#[trigger] rs[a], #[trigger] rs[b]),
        0 <= i < rs.len(), 0 <= j < rs.len(),
        in_range(rs[i], v), in_range(rs[j], v),
    ensures i == j // @at_most_one_match
{
    if i < j { assert(in_range(rs[i], v) && in_range(rs[j], v)); assert(shared(rs[i], rs[j])); }
    if j < i { assert(in_range(rs[j], v) && in_range(rs[i], v)); assert(shared(rs[j], rs[i])); }
}


// TRUSTED: the meaning of #[derive(PartialEq)] on the two version-range types is structural equality
// (needed for `endpoint.versions != ApiEndpointVersions::All` in HttpRouter::insert)
impl PartialEqSpecImpl for OrderedVersionPair {
    open spec fn obeys_eq_spec() -> bool { true }
    open spec fn eq_spec(&self, other: &Self) -> bool { *self == *other }
}
impl PartialEqSpecImpl for ApiEndpointVersions {
    open spec fn obeys_eq_spec() -> bool { true }
    open spec fn eq_spec(&self, other: &Self) -> bool { *self == *other }
}
