// ---- CHECKED: routing, from the statements of C01 and C04, over the router's trie ----

/// Representation invariant of the trie that `lookup_route` relies on (its two `assert!`s) and that
/// `HttpRouter::insert` maintains (proved in unit V14; `HttpRouter::new` establishes it: unit V10):
///  * a wildcard (`VariableRest`) child is terminal: it has no outgoing edges;
///  * method names stored in a node are legal header values (they are upper-cased HTTP method names);
///  * the version range of every stored endpoint is an ordered pair (the type invariant of OrderedVersionPair);
///  * the endpoints stored for one method name pairwise share no version (so at most one serves a request: lemma unique_match).
pub open spec fn wf_node<C: ServerContext>(n: HttpRouterNode<C>) -> bool
    decreases n
{
    &&& (forall|k: String| #[trigger] n.methods@.contains_key(k) ==> header_value_ok(k@))
    &&& (forall|k: String, i: int| #![trigger n.methods@[k]@[i]] n.methods@.contains_key(k) && 0 <= i < n.methods@[k]@.len() ==> wf(n.methods@[k]@[i].versions))
    &&& (forall|k: String, i: int, j: int| #![trigger n.methods@[k]@[i], n.methods@[k]@[j]] n.methods@.contains_key(k) && 0 <= i < j < n.methods@[k]@.len()
            ==> !shared(n.methods@[k]@[i].versions, n.methods@[k]@[j].versions))
    &&& match n.edges {
        None => true,
        Some(HttpRouterEdges::Literals(m)) => forall|k: String| #[trigger] m@.contains_key(k) ==> wf_node(*m@[k]),
        Some(HttpRouterEdges::VariableSingle(_, child)) => wf_node(*child),
        Some(HttpRouterEdges::VariableRest(_, child)) => child.edges is None && wf_node(*child),
    }
}

/// a path variable's value as the handler receives it (C01)
pub enum VarSpec { Str(String), Comps(Seq<String>) }
pub open spec fn var_view(v: VariableValue) -> VarSpec {
    match v { VariableValue::String(s) => VarSpec::Str(s), VariableValue::Components(c) => VarSpec::Comps(c@) }
}
pub open spec fn vars_view(m: Map<String, VariableValue>) -> Map<String, VarSpec> {
    m.map_values(|v: VariableValue| var_view(v))
}

/// C01: "Each path variable the handler receives equals the corresponding request path segment, and a trailing
/// wildcard variable receives the list of all remaining segments (possibly empty)": the node that the segments of a
/// request path lead to, and the variables bound on the way.  A literal edge is taken only by the identical segment.
pub open spec fn walk_to<C: ServerContext>(n: HttpRouterNode<C>, segs: Seq<String>, vars: Map<String, VarSpec>)
    -> Option<(HttpRouterNode<C>, Map<String, VarSpec>)>
    decreases segs.len(), n
{
    if segs.len() == 0 {
        Some((n, vars))
    } else {
        match n.edges {
            None => None,
            Some(HttpRouterEdges::Literals(m)) =>
                if m@.contains_key(segs[0]) { walk_to(*m@[segs[0]], segs.skip(1), vars) } else { None },
            Some(HttpRouterEdges::VariableSingle(name, child)) =>
                walk_to(*child, segs.skip(1), vars.insert(name, VarSpec::Str(segs[0]))),
            Some(HttpRouterEdges::VariableRest(name, child)) =>
                // all remaining segments: `seq![segs[0]] + segs.skip(1)` IS `segs` (lemma wildcard_gets_all); written this
                // way so that the proof never needs to name the whole remaining list
                Some((*child, vars.insert(name, VarSpec::Comps(seq![segs[0]] + segs.skip(1))))),
        }
    }
}
/// a path may also end AT the parent of a trailing wildcard: the wildcard then receives the empty list
pub open spec fn end_step<C: ServerContext>(n: HttpRouterNode<C>, vars: Map<String, VarSpec>) -> (HttpRouterNode<C>, Map<String, VarSpec>) {
    match n.edges {
        Some(HttpRouterEdges::VariableRest(name, child)) => (*child, vars.insert(name, VarSpec::Comps(Seq::empty()))),
        _ => (n, vars),
    }
}
/// the endpoints a node holds for a method name (none: empty list)
pub open spec fn handlers_for<C: ServerContext>(n: HttpRouterNode<C>, method: String) -> Seq<ApiEndpoint<C>> {
    if n.methods@.contains_key(method) { n.methods@[method]@ } else { Seq::empty() }
}
