// ---- shared by the router units (V10 lookup_route, V14 insert) ----
pub trait ServerContext {}
pub struct Opaque<T> { pub _p: core::marker::PhantomData<T> }

// ---- TRUSTED ----
/// `dyn RouteHandler<Context>`: a handler is an opaque object; only its identity matters to routing
#[verifier::external_body]
#[verifier::accept_recursive_types(Context)]
pub struct RouteHandlerObj<Context> { _p: core::marker::PhantomData<Context> }

/// A11: a String is determined by its characters
pub broadcast axiom fn ax_string_ext(a: String, b: String)
    ensures #[trigger] a@ == #[trigger] b@ ==> a == b;
/// String's Ord is a lawful total order (needed for BTreeMap<String, _>)
pub broadcast axiom fn ax_string_obeys_cmp()
    ensures #[trigger] vstd::laws_cmp::obeys_cmp::<String>();

#[verifier::external_body]
pub struct Method { _p: u8 }
pub uninterp spec fn method_text(m: Method) -> Seq<char>;
impl Method {
    #[verifier::external_body]
    pub fn as_str(&self) -> (r: &str) ensures r@ == method_text(*self) { unimplemented!() }
    /// <http::Method as Display>::to_string: the same text as as_str
    #[verifier::external_body]
    pub fn to_string(&self) -> (r: String) ensures r@ == method_text(*self) { unimplemented!() }
}
/// str::to_uppercase (W1 `.to_uppercase()` -> `.to_uppercase_()`): an uninterpreted function of the text
pub uninterp spec fn upper(s: Seq<char>) -> Seq<char>;
pub trait ToStringSame { fn to_string_(&self) -> String; }
impl ToStringSame for str {
    #[verifier::external_body]
    fn to_string_(&self) -> (r: String) ensures r@ == self@ { unimplemented!() }
}
impl ToStringSame for String {
    #[verifier::external_body]
    fn to_string_(&self) -> (r: String) ensures r@ == self@ { unimplemented!() }
}
/// the String whose characters are upper(s) (unique by A11)
pub uninterp spec fn upper_string(s: Seq<char>) -> String;
pub broadcast axiom fn ax_upper_string(s: Seq<char>) ensures #[trigger] upper_string(s)@ == upper(s);
pub trait ToUpper { fn to_uppercase_(&self) -> String; }
impl ToUpper for str {
    #[verifier::external_body]
    fn to_uppercase_(&self) -> (r: String) ensures r@ == upper(self@) { unimplemented!() }
}

