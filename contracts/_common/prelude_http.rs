// ---- TRUSTED (shared): stand-ins for the `http` crate types that dropshot's error path touches ----
// http::StatusCode: a u16 newtype; only the numeric code is modelled.
#[derive(Clone, Copy, PartialEq, Eq)]
pub struct StatusCode { pub code: u16 }
pub uninterp spec fn has_canonical_reason(code: u16) -> bool;
/// dependency facts about http::StatusCode::canonical_reason for the three codes dropshot's own
/// constructors use (re-checked on the real `http` crate by Kani: K3 proves those constructors return)
pub axiom fn ax_known_reasons()
    ensures has_canonical_reason(404), has_canonical_reason(500), has_canonical_reason(503);
impl StatusCode {
    #[verifier::external_body]
    pub fn as_u16(&self) -> (r: u16) ensures r == self.code { unimplemented!() }
    #[verifier::external_body]
    pub fn is_client_error(&self) -> (r: bool) ensures r == (400 <= self.code && self.code <= 499) { unimplemented!() }
    #[verifier::external_body]
    pub fn is_server_error(&self) -> (r: bool) ensures r == (500 <= self.code && self.code <= 599) { unimplemented!() }
    #[verifier::external_body]
    pub fn canonical_reason(&self) -> (r: Option<&'static str>) ensures (r is Some) == has_canonical_reason(self.code) { unimplemented!() }
}
// http::HeaderMap: an ordered multi-map, viewed as the sequence of (name, value) pairs it will emit.
#[verifier::external_body]
pub struct HeaderMap { _p: u8 }
pub uninterp spec fn hm_view(h: HeaderMap) -> Seq<(Seq<char>, Seq<char>)>;
#[verifier::external_body]
pub struct HeaderValue { _p: u8 }
pub uninterp spec fn hv_view(h: HeaderValue) -> Seq<char>;
#[verifier::external_body]
#[derive(Debug)]
pub struct InvalidHeaderValue { _p: u8 }
/// which strings http::HeaderValue::from_str accepts (its exact byte rule is proved in Kani unit K4)
pub uninterp spec fn header_value_ok(s: Seq<char>) -> bool;
impl HeaderValue {
    #[verifier::external_body]
    pub fn from_str(s: &str) -> (r: Result<HeaderValue, InvalidHeaderValue>)
        ensures (r is Ok) == header_value_ok(s@), r is Ok ==> hv_view(r->Ok_0) == s@ { unimplemented!() }
}
pub open spec fn hm_without(s: Seq<(Seq<char>, Seq<char>)>, name: Seq<char>) -> Seq<(Seq<char>, Seq<char>)> {
    s.filter(|p: (Seq<char>, Seq<char>)| p.0 != name)
}
impl HeaderMap {
    #[verifier::external_body]
    pub fn new() -> (r: HeaderMap) ensures hm_view(r) == Seq::<(Seq<char>, Seq<char>)>::empty() { unimplemented!() }
    /// HeaderMap::insert: replaces every value stored under `name`
    #[verifier::external_body]
    pub fn insert<K: HeaderText>(&mut self, name: K, v: HeaderValue) -> (r: Option<HeaderValue>)
        ensures hm_view(*final(self)) == hm_without(hm_view(*old(self)), name.text()).push((name.text(), hv_view(v))) { unimplemented!() }
    /// HeaderMap::append: adds a value and KEEPS whatever is already stored under `name`
    #[verifier::external_body]
    pub fn append<K: HeaderText>(&mut self, name: K, v: HeaderValue) -> (r: bool)
        ensures hm_view(*final(self)) == hm_view(*old(self)).push((name.text(), hv_view(v))) { unimplemented!() }
}
/// things accepted as header names / values by Builder::header (TryFrom<K> for HeaderName / HeaderValue)
pub trait HeaderText { spec fn text(&self) -> Seq<char>; }
impl HeaderText for &str { open spec fn text(&self) -> Seq<char> { self@ } }
pub struct HeaderName { pub name: Ghost<Seq<char>> }
impl HeaderText for HeaderName { open spec fn text(&self) -> Seq<char> { self.name@ } }
/// http::header::CONTENT_TYPE
#[verifier::external_body]
pub fn header_content_type() -> (r: HeaderName) ensures r.name@ == "content-type"@ { unimplemented!() }

#[verifier::external_body]
pub fn fmt_opaque() -> String { unimplemented!() }
