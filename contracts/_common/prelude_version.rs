// ---- TRUSTED: abstract stand-in for semver::Version (assumption A1) ----
// Nothing is assumed about the order except that it is a total order that is
// consistent with `==`: no density, no discreteness, no least element.  So
// everything proved below holds for semver precedence including pre-release
// and build metadata, provided semver's `Ord` is such an order.
#[verifier::external_body]
pub struct Version { _opaque: u8 }

/// the precedence order `a <= b` of semver::Version's `Ord` impl
pub uninterp spec fn vle(a: Version, b: Version) -> bool;

pub broadcast axiom fn vle_total(a: Version, b: Version)
    ensures #[trigger] vle(a, b) || vle(b, a);
pub broadcast axiom fn vle_antisym(a: Version, b: Version)
    requires #[trigger] vle(a, b), #[trigger] vle(b, a)
    ensures a == b;
pub broadcast axiom fn vle_trans(a: Version, b: Version, c: Version)
    requires #[trigger] vle(a, b), #[trigger] vle(b, c)
    ensures vle(a, c);

impl PartialEqSpecImpl for Version {
    open spec fn obeys_eq_spec() -> bool { true }
    open spec fn eq_spec(&self, other: &Self) -> bool { *self == *other }
}
impl PartialEq for Version {
    #[verifier::external_body]
    fn eq(&self, other: &Self) -> (r: bool) { unimplemented!() }
}
impl Eq for Version {}
impl PartialOrdSpecImpl for Version {
    open spec fn obeys_partial_cmp_spec() -> bool { true }
    open spec fn partial_cmp_spec(&self, other: &Self) -> Option<Ordering> {
        if *self == *other { Some(Ordering::Equal) } else if vle(*self, *other) { Some(Ordering::Less) } else { Some(Ordering::Greater) }
    }
}
impl PartialOrd for Version {
    #[verifier::external_body]
    fn partial_cmp(&self, other: &Self) -> (r: Option<Ordering>) { unimplemented!() }
}
