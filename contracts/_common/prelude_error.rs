// ---- TRUSTED (shared): macro-generated one-line methods and constants of the two status newtypes ----
// (`impl_status_code_wrapper!` / `error_status_code_constants!` bodies are macro text and are not
//  extracted; each stand-in states what the macro body does.  Kani unit K2 proves the numeric facts on
//  the real crate: constants' values and ranges.)
impl ErrorStatusCode {
    pub const INTERNAL_SERVER_ERROR: ErrorStatusCode = ErrorStatusCode(StatusCode { code: 500 });
    pub const SERVICE_UNAVAILABLE: ErrorStatusCode = ErrorStatusCode(StatusCode { code: 503 });
    pub const NOT_FOUND: ErrorStatusCode = ErrorStatusCode(StatusCode { code: 404 });
    #[verifier::external_body]
    pub fn as_status(&self) -> (r: StatusCode) ensures r == self.0 { unimplemented!() }
    #[verifier::external_body]
    pub fn canonical_reason(&self) -> (r: Option<&'static str>) ensures (r is Some) == has_canonical_reason(self.0.code) { unimplemented!() }
}
impl ClientErrorStatusCode {
    pub const BAD_REQUEST: ClientErrorStatusCode = ClientErrorStatusCode(StatusCode { code: 400 });
    #[verifier::external_body]
    pub fn as_status(&self) -> (r: StatusCode) ensures r == self.0 { unimplemented!() }
    #[verifier::external_body]
    pub fn canonical_reason(&self) -> (r: Option<&'static str>) ensures (r is Some) == has_canonical_reason(self.0.code) { unimplemented!() }
}
// ---- CHECKED (shared): spec helpers used by the contracts of the error constructors ----
pub open spec fn is_error_code(c: u16) -> bool { 400 <= c && c <= 599 }
pub open spec fn is_client_code(c: u16) -> bool { 400 <= c && c <= 499 }
pub open spec fn status_of(e: HttpError) -> u16 { e.status_code.0.code }

// vstd's contract of `From::from` / `Into::into` is stated through FromSpecImpl; this says what the
// conversion computes, and the extracted body of `From<ClientErrorStatusCode> for ErrorStatusCode::from`
// is verified against it (so it is checked, not assumed).
impl vstd::std_specs::convert::FromSpecImpl<ClientErrorStatusCode> for ErrorStatusCode {
    open spec fn obeys_from_spec() -> bool { true }
    open spec fn from_spec(v: ClientErrorStatusCode) -> Self { ErrorStatusCode(v.0) }
}
