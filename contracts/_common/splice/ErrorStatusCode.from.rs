//@ ret r
//@ contract
        ensures r.0 == error.0, // @widening_keeps_code
