//@ ret r
//@ contract
        ensures r == (match *self { HandlerError::Handler { .. } => None::<&String>, HandlerError::Dropshot(e) => Some(&e.external_message) }), // @external_text
