//@ ret r
//@ contract
        ensures r == is_client_code(self.0.code), // @is_4xx
