//@ ret r
//@ contract
        ensures
            // the error's own conversion is asked for a response with THE STATUS THE ERROR DECLARES; what it
            // returns becomes the handler error (C13: "produces a response with exactly that status")
            exists|b: Builder| #![trigger e.to_response_spec(b)]
                b.status == e.status_code_spec().0 && !b.failed && hm_view(b.hdrs) == Seq::<(Seq<char>, Seq<char>)>::empty()
                && (match e.to_response_spec(b) {
                    Ok(rsp) => r is Handler && r->rsp == rsp,
                    Err(e2) => r == HandlerError::Dropshot(e2),
                }), // @user_error_converted_with_its_declared_status
