//@ ret r
//@ contract
        ensures
            // the error's own conversion is asked for a response with THE STATUS THE ERROR DECLARES; what it
            // returns becomes the handler error (C13: "produces a response with exactly that status")
            exists|res: HttpHandlerResult| #![trigger e.to_response_rel(e.status_code_spec().0, false, Seq::<(Seq<char>, Seq<char>)>::empty(), res)]
                e.to_response_rel(e.status_code_spec().0, false, Seq::<(Seq<char>, Seq<char>)>::empty(), res)
                && (match res {
                    Ok(rsp) => r is Handler && r->rsp == rsp,
                    Err(e2) => r == HandlerError::Dropshot(e2),
                }), // @user_error_converted_with_its_declared_status
