//@ ret r
//@ contract
        ensures r == self.status_code_spec()
