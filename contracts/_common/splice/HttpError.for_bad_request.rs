//@ ret r
//@ contract
        ensures
            status_of(r) == 400, // @status_400
            r.external_message@ == message@, // @message_is_external
            r.internal_message@ == message@, // @message_is_internal
            r.error_code == error_code, // @error_code_passed_through
            r.headers is None, // @no_headers
