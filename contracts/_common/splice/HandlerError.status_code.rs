//@ ret r
//@ contract
        ensures r == (match *self { HandlerError::Handler { rsp, .. } => rsp.status, HandlerError::Dropshot(e) => e.status_code.0 }), // @status_of_either_arm
