//@ ret rsp
//@ contract
        requires
            header_value_ok(request_id@),
        ensures
            rsp.status == self.status_code.0, // @exactly_that_status
            rsp.body.bytes@ == json_pretty(request_id@, optv(self.error_code), self.external_message@), // @body_is_external_message_code_and_id_only
            hm_view(rsp.hdrs) == (match self.headers { Some(h) => hm_view(*h), None => Seq::<(Seq<char>, Seq<char>)>::empty() })
                .push(("content-type"@, "application/json"@)).push(("x-request-id"@, request_id@)), // @own_headers_then_content_type_then_request_id
//@ body_start
        broadcast use ax_constant_header_values_ok;
