//@ ret r
//@ contract
        ensures
            r.status_code.0 == status_code.0, // @status_is_the_one_named
            r.external_message@ == message@, // @message_is_external
            r.internal_message@ == message@, // @message_is_internal
            r.error_code == error_code, // @error_code_passed_through
            r.headers is None, // @no_headers
