//@ ret r
//@ contract
        ensures
            status_of(r) == 500, // @status_500
            r.internal_message@ == internal_message@, // @argument_is_internal_only
            r.headers is None, // @no_headers
//@ body_start
        proof { ax_known_reasons(); }
