//@ ret r
//@ contract
        ensures
            r is Err <==> vlt(until, earliest), // @rejects_exactly_reversed
            r is Ok ==> r->Ok_0 == mk_from_until(earliest, until), // @builds_the_pair
            r is Ok ==> wf(r->Ok_0), // @establishes_wf
//@ body_start
        broadcast use vle_total, vle_antisym, vle_trans;
