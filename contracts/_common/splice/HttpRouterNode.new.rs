//@ ret r
//@ contract
        ensures r.edges is None, r.methods@ == Map::<String, Vec<ApiEndpoint<Context>>>::empty(), wf_node(r), // @a_new_node_is_wellformed_and_empty
//@ body_start
        broadcast use ax_string_obeys_cmp;
