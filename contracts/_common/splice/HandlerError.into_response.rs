//@ ret out
//@ contract
        requires
            header_value_ok(request_id@),
        ensures
            match self {
                HandlerError::Handler { rsp, .. } => {
                    &&& out.status == rsp.status
                    &&& out.body == rsp.body
                    &&& hm_view(out.hdrs) == hm_without(hm_view(rsp.hdrs), "x-request-id"@).push(("x-request-id"@, request_id@))
                },
                HandlerError::Dropshot(e) => {
                    &&& out.status == e.status_code.0
                    &&& out.body.bytes@ == json_pretty(request_id@, optv(e.error_code), e.external_message@)
                    &&& hm_view(out.hdrs) == (match e.headers { Some(h) => hm_view(*h), None => Seq::<(Seq<char>, Seq<char>)>::empty() })
                            .push(("content-type"@, "application/json"@)).push(("x-request-id"@, request_id@))
                },
            }, // @request_id_stamped_rest_untouched
