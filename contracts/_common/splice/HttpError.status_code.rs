//@ ret r
