//@ ret r
//@ contract
        ensures *r == (match *self { HandlerError::Handler { message, .. } => message, HandlerError::Dropshot(e) => e.internal_message }), // @internal_text
