//@ ret r
//@ contract
        ensures
            r == (match version { None => true, Some(v) => in_range(*self, *v) }), // @range_meaning
//@ body_start
        broadcast use vle_total, vle_antisym, vle_trans;
