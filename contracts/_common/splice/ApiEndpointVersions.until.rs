//@ ret r
//@ contract
        ensures r == ApiEndpointVersions::Until(v), wf(r), // @ctor_until
