//@ ret r
//@ contract
        ensures
            status_of(r) == 404, // @status_404
            r.internal_message@ == internal_message@, // @argument_is_internal_only
            r.error_code == error_code, // @error_code_passed_through
            r.headers is None, // @no_headers
//@ body_start
        proof { ax_known_reasons(); }
