//@ ret r
//@ contract
        ensures r == ApiEndpointVersions::All, wf(r), // @ctor_all
