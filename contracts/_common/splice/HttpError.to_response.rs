//@ ret r
