//@ ret r
//@ contract
        ensures r == ApiEndpointVersions::From(v), wf(r), // @ctor_from
