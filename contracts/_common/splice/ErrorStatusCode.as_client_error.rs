//@ ret r
//@ contract
        ensures
            (r is Ok) == is_client_code(self.0.code), // @refines_exactly_4xx
            r is Ok ==> r->Ok_0.0 == self.0, // @code_preserved
