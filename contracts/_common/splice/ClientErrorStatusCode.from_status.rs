//@ ret r
//@ contract
        ensures
            (r is Ok) == is_client_code(status.code), // @only_4xx_representable
            r is Ok ==> r->Ok_0.0 == status, // @code_preserved
