//@ ret r
//@ contract
        ensures
            (r is Ok) == is_error_code(status.code), // @only_4xx_5xx_representable
            r is Ok ==> r->Ok_0.0 == status, // @code_preserved
