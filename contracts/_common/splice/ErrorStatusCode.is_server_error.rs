//@ ret r
//@ contract
        ensures r == (500 <= self.0.code && self.0.code <= 599), // @is_5xx
