//@ ret r
//@ contract
        ensures
            r.status_code.0 == status_code.0, // @status_is_the_one_named
            r.external_message@ == r.internal_message@, // @same_text_both_sides
            r.error_code == error_code, // @error_code_passed_through
            r.headers is None, // @no_headers
