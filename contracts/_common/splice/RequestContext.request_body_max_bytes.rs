//@ ret r
//@ contract
        ensures
            r == (match self.endpoint.request_body_max_bytes { Some(x) => x, None => self.server.config.default_request_body_max_bytes }), // @override_else_server_default
