//@ ret r
//@ contract
        ensures self.to_response_rel(builder.status, builder.failed, hm_view(builder.hdrs), r)
