//@ ret r
//@ contract
        ensures r == self.to_response_spec(builder)
