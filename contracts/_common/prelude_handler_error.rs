// ---- TRUSTED (shared) ----
/// the generic From impl does not promise vstd's from_spec equation (its result depends on the error's own conversion)
impl<E: HttpResponseError> vstd::std_specs::convert::FromSpecImpl<E> for HandlerError {
    open spec fn obeys_from_spec() -> bool { false }
    uninterp spec fn from_spec(e: E) -> Self;
}
/// HttpResponseError requires From<HttpError> and Display; for HttpError itself these are the reflexive From and a
/// Display impl that only formats text
impl std::fmt::Display for HttpError {
    #[verifier::external_body]
    fn fmt(&self, f: &mut std::fmt::Formatter<'_>) -> std::fmt::Result { unimplemented!() }
}
