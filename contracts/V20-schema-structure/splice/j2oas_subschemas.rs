//@ ret r
//@ contract
    requires
        // the four supported shapes (the real code panics on any other combination)
        ({ let n = (if subschemas.all_of is Some { 1int } else { 0 }) + (if subschemas.any_of is Some { 1int } else { 0 })
                 + (if subschemas.one_of is Some { 1int } else { 0 }) + (if subschemas.not is Some { 1int } else { 0 }); n == 1 }),
    ensures
        // "all/any/one-of, not": the same combinator, over the conversions of the same member schemas in the same order
        subschemas.all_of is Some ==> (r matches SchemaKind::AllOf { all_of } && all_of@.len() == subschemas.all_of->Some_0@.len()
            && forall|i: int| 0 <= i < all_of@.len() ==> (#[trigger] all_of@[i]) == conv_schema(subschemas.all_of->Some_0@[i])), // @all_of_kept_member_by_member
        subschemas.any_of is Some ==> (r matches SchemaKind::AnyOf { any_of } && any_of@.len() == subschemas.any_of->Some_0@.len()
            && forall|i: int| 0 <= i < any_of@.len() ==> (#[trigger] any_of@[i]) == conv_schema(subschemas.any_of->Some_0@[i])), // @any_of_kept_member_by_member
        subschemas.one_of is Some ==> (r matches SchemaKind::OneOf { one_of } && one_of@.len() == subschemas.one_of->Some_0@.len()
            && forall|i: int| 0 <= i < one_of@.len() ==> (#[trigger] one_of@[i]) == conv_schema(subschemas.one_of->Some_0@[i])), // @one_of_kept_member_by_member
        subschemas.not is Some ==> (r matches SchemaKind::Not { not } && *not == conv_schema(*subschemas.not->Some_0)), // @not_kept
//@ closure 0
|schema: &JSchema| -> (o: ReferenceOr<OSchema>) ensures o == conv_schema(*schema)
//@ closure 1
|schema: &JSchema| -> (o: ReferenceOr<OSchema>) ensures o == conv_schema(*schema)
//@ closure 2
|schema: &JSchema| -> (o: ReferenceOr<OSchema>) ensures o == conv_schema(*schema)
