//@ ret out
//@ contract
    ensures out == (match r { ReferenceOr::Item(s) => ReferenceOr::Item(Box::new(s)), ReferenceOr::Reference { reference } => ReferenceOr::<Box<T>>::Reference { reference } }), // @boxing_keeps_the_reference_or_the_item
