//@ ret r
//@ contract
    ensures
        object is None ==> (r matches SchemaKind::Type(Type::Object(ot)) && default_object(ot)), // @no_object_validation_is_the_plain_object
        object is Some ==> (r matches SchemaKind::Type(Type::Object(ot)) && ({
            let obj = *object->Some_0;
            // "item and property schemas": every property keeps its name and carries the conversion of its own schema
            &&& forall|k: Seq<char>| #[trigger] opm_get(ot.properties, k) == (match pm_get(obj.properties, k) { Some(s) => Some(boxed(conv_schema(s))), None => None::<ReferenceOr<Box<OSchema>>> })
            // "required"
            &&& ot.required@.len() == names_of(obj.required).len() && forall|i: int| 0 <= i < ot.required@.len() ==> (#[trigger] ot.required@[i])@ == names_of(obj.required)[i]
            // "additional-properties": a boolean stays that boolean, a schema becomes its conversion
            &&& ot.additional_properties == (match obj.additional_properties {
                    None => None::<AdditionalProperties>,
                    Some(b) => match *b { JSchema::Bool(x) => Some(AdditionalProperties::Any(x)), JSchema::Object(o) => Some(AdditionalProperties::Schema(Box::new(conv_schema_object(o)))) } })
            &&& ot.min_properties == as_usize(obj.min_properties) && ot.max_properties == as_usize(obj.max_properties)
        })), // @object_keywords_kept
//@ closure 0
|schema: &Box<JSchema>| -> (o: AdditionalProperties) ensures o == (match **schema { JSchema::Bool(x) => AdditionalProperties::Any(x), JSchema::Object(ob) => AdditionalProperties::Schema(Box::new(conv_schema_object(ob))) })
//@ closure 1
|n: u32| -> (u: usize) ensures u == n as usize
//@ closure 2
|n: u32| -> (u: usize) ensures u == n as usize
