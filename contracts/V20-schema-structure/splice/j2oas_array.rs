//@ ret r
//@ contract
    requires
        array is Some,                                                  // only called for array schemas (`unwrap`)
        !(array->Some_0.items is Some && array->Some_0.items->Some_0 is Vec),   // tuple-like arrays: the real code panics
    ensures
        (r matches SchemaKind::Type(Type::Array(at)) && ({
            let arr = *array->Some_0;
            &&& at.min_items == as_usize(arr.min_items) && at.max_items == as_usize(arr.max_items) // @item_limits_kept
            &&& at.unique_items == (arr.unique_items == Some(true)) // @unique_items_kept
            &&& at.items == (match arr.items { Some(SingleOrVec::Single(s)) => Some(boxed(conv_schema(*s))), _ => None::<ReferenceOr<Box<OSchema>>> }) // @item_schema_is_the_conversion_of_the_item_schema
        })), // @array_keywords_kept
//@ closure 0
|n: u32| -> (u: usize) ensures u == n as usize
//@ closure 1
|n: u32| -> (u: usize) ensures u == n as usize
