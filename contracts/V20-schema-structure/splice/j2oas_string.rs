//@ ret r
//@ contract
    requires string_values_only(*enum_values)
    ensures
        (r matches SchemaKind::Type(Type::String(st)) && ({
            // "format": the five formats OpenAPI names are mapped to themselves, anything else is kept verbatim
            &&& (match *format {
                    None => st.format is Empty,
                    Some(f) => if f@ == "date"@ { st.format == VariantOrUnknownOrEmpty::Item(StringFormat::Date) }
                        else if f@ == "date-time"@ { st.format == VariantOrUnknownOrEmpty::Item(StringFormat::DateTime) }
                        else if f@ == "password"@ { st.format == VariantOrUnknownOrEmpty::Item(StringFormat::Password) }
                        else if f@ == "byte"@ { st.format == VariantOrUnknownOrEmpty::Item(StringFormat::Byte) }
                        else if f@ == "binary"@ { st.format == VariantOrUnknownOrEmpty::Item(StringFormat::Binary) }
                        else { st.format matches VariantOrUnknownOrEmpty::Unknown(o) && o@ == f@ } }) // @format_kept
            // "length ... limits", pattern
            &&& st.max_length == (match *string { Some(s) => as_usize(s.max_length), None => None })
            &&& st.min_length == (match *string { Some(s) => as_usize(s.min_length), None => None })
            &&& st.pattern == (match *string { Some(s) => s.pattern, None => None }) // @length_limits_and_pattern_kept
            // "enum"
            &&& (match *enum_values { None => st.enumeration@.len() == 0, Some(vs) => st.enumeration@.len() == vs@.len()
                    && forall|i: int| 0 <= i < vs@.len() ==> (match #[trigger] st.enumeration@[i] { Some(s) => Some(s@), None => None::<Seq<char>> }) == enum_entry(vs@[i]) }) // @enum_values_kept
        })), // @string_keywords_kept
//@ body_start
    proof {
        assert forall|a: &str| #[trigger] a@ == "date"@ implies a == "date" by { ax_str_ext(a, "date"); }
        assert forall|a: &str| #[trigger] a@ == "date-time"@ implies a == "date-time" by { ax_str_ext(a, "date-time"); }
        assert forall|a: &str| #[trigger] a@ == "password"@ implies a == "password" by { ax_str_ext(a, "password"); }
        assert forall|a: &str| #[trigger] a@ == "byte"@ implies a == "byte" by { ax_str_ext(a, "byte"); }
        assert forall|a: &str| #[trigger] a@ == "binary"@ implies a == "binary" by { ax_str_ext(a, "binary"); }
    }
//@ closure 0
|s: &String| -> (t: &str) ensures t@ == s@
//@ closure 1
|n: u32| -> (u: usize) ensures u == n as usize
//@ closure 2
|n: u32| -> (u: usize) ensures u == n as usize
