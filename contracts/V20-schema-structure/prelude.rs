use vstd::prelude::*;
//@ items
#[verifier::external_body]
pub fn fmt_opaque() -> String { unimplemented!() }
//@ include ../_common/prelude_schema.rs

// ---- TRUSTED (V20) ----
pub uninterp spec fn pm_get(m: PropMap, k: Seq<char>) -> Option<JSchema>;
pub uninterp spec fn opm_get(m: OPropMap, k: Seq<char>) -> Option<ReferenceOr<Box<OSchema>>>;
pub uninterp spec fn names_of(s: NameSet) -> Seq<Seq<char>>;
pub open spec fn default_object(o: ObjectType) -> bool {
    (forall|k: Seq<char>| opm_get(o.properties, k) is None) && o.required@.len() == 0 && o.additional_properties is None
    && o.min_properties is None && o.max_properties is None
}
impl Default for ObjectType { #[verifier::external_body] fn default() -> (r: ObjectType) ensures default_object(r) { unimplemented!() } }
impl<T> ReferenceOr<T> {
    /// openapiv3: ReferenceOr::boxed_item(item) = ReferenceOr::Item(Box::new(item))
    #[verifier::external_body]
    pub fn boxed_item(item: T) -> (r: ReferenceOr<Box<T>>) ensures r == ReferenceOr::Item(Box::new(item)) { unimplemented!() }
}
/// the recursion, cut: j2oas_schema / j2oas_schema_object (unit V19) as functions of their arguments
pub uninterp spec fn conv_schema(s: JSchema) -> ReferenceOr<OSchema>;
pub uninterp spec fn conv_schema_object(o: SchemaObject) -> ReferenceOr<OSchema>;
#[verifier::external_body]
pub fn j2oas_schema(name: Option<&String>, schema: &JSchema) -> (r: ReferenceOr<OSchema>)
    requires name is None
    ensures r == conv_schema(*schema) { unimplemented!() }
#[verifier::external_body]
pub fn j2oas_schema_object(name: Option<&String>, obj: &SchemaObject) -> (r: ReferenceOr<OSchema>)
    requires name is None
    ensures r == conv_schema_object(*obj) { unimplemented!() }
/// std: `v.iter().map(f).collect::<Vec<_>>()`
pub trait MapCollectVec<T>: Sized {
    spec fn items_view(&self) -> Seq<T>;
    fn map_collect_vec<U, F: Fn(&T) -> U>(&self, f: F) -> (r: Vec<U>)
        requires forall|x: &T| call_requires(f, (x,)),
        ensures r@.len() == self.items_view().len(), forall|i: int| 0 <= i < self.items_view().len() ==> call_ensures(f, (&#[trigger] self.items_view()[i],), r@[i]);
}
impl<T> MapCollectVec<T> for Vec<T> {
    open spec fn items_view(&self) -> Seq<T> { self@ }
    #[verifier::external_body]
    fn map_collect_vec<U, F: Fn(&T) -> U>(&self, f: F) -> (r: Vec<U>) { unimplemented!() }
}
/// W1: the property chain and the required-names chain of j2oas_object
pub open spec fn boxed(r: ReferenceOr<OSchema>) -> ReferenceOr<Box<OSchema>> {
    match r { ReferenceOr::Item(s) => ReferenceOr::Item(Box::new(s)), ReferenceOr::Reference { reference } => ReferenceOr::Reference { reference } }
}
#[verifier::external_body]
pub fn convert_properties(m: &PropMap) -> (r: OPropMap)
    ensures forall|k: Seq<char>| #[trigger] opm_get(r, k) == (match pm_get(*m, k) { Some(s) => Some(boxed(conv_schema(s))), None => None::<ReferenceOr<Box<OSchema>>> })
{ unimplemented!() }
#[verifier::external_body]
pub fn required_names(s: &NameSet) -> (r: Vec<String>)
    ensures r@.len() == names_of(*s).len(), forall|i: int| 0 <= i < r@.len() ==> (#[trigger] r@[i])@ == names_of(*s)[i]
{ unimplemented!() }

/// W1: the enumeration chain of j2oas_string
pub open spec fn string_values_only(e: Option<Vec<Value>>) -> bool {
    e is Some ==> forall|i: int| 0 <= i < e->Some_0@.len() ==> (#[trigger] e->Some_0@[i]) is Null || e->Some_0@[i] is String
}
pub open spec fn enum_entry(v: Value) -> Option<Seq<char>> { match v { Value::String(s) => Some(s@), _ => None } }
#[verifier::external_body]
pub fn string_enumeration(enum_values: &Option<Vec<Value>>) -> (r: Vec<Option<String>>)
    requires string_values_only(*enum_values)
    ensures
        *enum_values is None ==> r@.len() == 0,
        *enum_values is Some ==> r@.len() == enum_values->Some_0@.len()
            && forall|i: int| 0 <= i < r@.len() ==> (match #[trigger] r@[i] { Some(s) => Some(s@), None => None::<Seq<char>> }) == enum_entry(enum_values->Some_0@[i]),
{ unimplemented!() }
/// A11: a str is determined by its characters
pub axiom fn ax_str_ext(a: &str, b: &str)
    ensures a@ == b@ ==> a == b;
