// ---- CHECKED: the structural keywords, from the statement of C08 ----
pub open spec fn as_usize(o: Option<u32>) -> Option<usize> { match o { Some(n) => Some(n as usize), None => None } }

proof fn sentinel_v20_prelude_consistent()
    ensures false
{}
proof fn sentinel_boxed_not_constant(a: ReferenceOr<OSchema>, b: ReferenceOr<OSchema>)
    ensures boxed(a) == boxed(b)
{}
