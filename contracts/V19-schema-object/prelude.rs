use vstd::prelude::*;
//@ items
#[verifier::external_body]
pub fn fmt_opaque() -> String { unimplemented!() }

//@ include ../_common/prelude_schema.rs
// ---- TRUSTED: the per-kind converters (schema_util.rs; checked on the real crate by Kani unit K5) as uninterpreted
// functions of their arguments ----
pub uninterp spec fn conv_object(o: Option<Box<ObjectValidation>>) -> SchemaKind;
pub uninterp spec fn conv_array(a: Option<Box<ArrayValidation>>) -> SchemaKind;
pub uninterp spec fn conv_number(f: Option<String>, n: Option<Box<NumberValidation>>, e: Option<Vec<Value>>) -> SchemaKind;
pub uninterp spec fn conv_string(f: Option<String>, s: Option<Box<StringValidation>>, e: Option<Vec<Value>>) -> SchemaKind;
pub uninterp spec fn conv_integer(f: Option<String>, n: Option<Box<NumberValidation>>, e: Option<Vec<Value>>) -> SchemaKind;
pub uninterp spec fn conv_subschemas(s: SubschemaValidation) -> SchemaKind;
#[verifier::external_body] pub fn j2oas_object(object: &Option<Box<ObjectValidation>>) -> (r: SchemaKind) ensures r == conv_object(*object) { unimplemented!() }
#[verifier::external_body] pub fn j2oas_array(array: &Option<Box<ArrayValidation>>) -> (r: SchemaKind) ensures r == conv_array(*array) { unimplemented!() }
#[verifier::external_body] pub fn j2oas_number(format: &Option<String>, number: &Option<Box<NumberValidation>>, enum_values: &Option<Vec<Value>>) -> (r: SchemaKind) ensures r == conv_number(*format, *number, *enum_values) { unimplemented!() }
#[verifier::external_body] pub fn j2oas_string(format: &Option<String>, string: &Option<Box<StringValidation>>, enum_values: &Option<Vec<Value>>) -> (r: SchemaKind) ensures r == conv_string(*format, *string, *enum_values) { unimplemented!() }
#[verifier::external_body] pub fn j2oas_integer(format: &Option<String>, number: &Option<Box<NumberValidation>>, enum_values: &Option<Vec<Value>>) -> (r: SchemaKind) ensures r == conv_integer(*format, *number, *enum_values) { unimplemented!() }
#[verifier::external_body] pub fn j2oas_subschemas(subschemas: &SubschemaValidation) -> (r: SchemaKind) ensures r == conv_subschemas(*subschemas) { unimplemented!() }
/// W1: the boolean enumeration chain -- one entry per enum value: null -> None, a boolean -> Some(it); anything else
/// is not a boolean schema's enumeration (the real code panics)
pub open spec fn bool_values_only(vs: Seq<Value>) -> bool { forall|i: int| 0 <= i < vs.len() ==> (#[trigger] vs[i]) is Null || vs[i] is Bool }
#[verifier::external_body]
pub fn bool_enumeration(values: &Vec<Value>) -> (r: Vec<Option<bool>>)
    requires bool_values_only(values@)
    ensures r@.len() == values@.len(),
        forall|i: int| 0 <= i < values@.len() ==> (#[trigger] r@[i]) == (match values@[i] { Value::Bool(b) => Some(b), _ => None::<bool> }),
{ unimplemented!() }
/// W1: the extension-preserving chain: exactly the entries whose key starts with "x-", with equal values
#[verifier::external_body]
pub fn x_extensions(m: &ExtMap) -> (r: OExtMap)
    ensures forall|k: Seq<char>| #[trigger] oext_get(r, k) == (if starts_with_x(k) { ext_get(*m, k) } else { None::<Value> })
{ unimplemented!() }
