use vstd::prelude::*;
//@ items
#[verifier::external_body]
pub fn fmt_opaque() -> String { unimplemented!() }

// ---- TRUSTED: the dependency types this code reads and builds, with the fields it uses ----
#[verifier::external_body]
pub struct OpaqueV { _p: u8 }
/// serde_json::Value
pub enum Value { Null, Bool(bool), Number(OpaqueV), String(String), Array(OpaqueV), Object(OpaqueV) }
impl Clone for Value { #[verifier::external_body] fn clone(&self) -> (r: Value) ensures r == *self { unimplemented!() } }
/// schemars::schema::*
pub enum InstanceType { Null, Boolean, Object, Array, Number, String, Integer }
pub enum SingleOrVec<T> { Single(Box<T>), Vec(Vec<T>) }
pub struct Metadata {
    pub id: Option<String>, pub title: Option<String>, pub description: Option<String>, pub default: Option<Value>,
    pub deprecated: bool, pub read_only: bool, pub write_only: bool, pub examples: Vec<Value>,
}
#[verifier::external_body] pub struct SubschemaValidation { _p: u8 }
#[verifier::external_body] pub struct NumberValidation { _p: u8 }
#[verifier::external_body] pub struct StringValidation { _p: u8 }
#[verifier::external_body] pub struct ArrayValidation { _p: u8 }
#[verifier::external_body] pub struct ObjectValidation { _p: u8 }
/// schemars::Map<String, Value> (extensions): only lookups by key and the "x-" filter are used
#[verifier::external_body]
pub struct ExtMap { _p: u8 }
pub uninterp spec fn ext_get(m: ExtMap, key: Seq<char>) -> Option<Value>;
impl ExtMap {
    #[verifier::external_body]
    pub fn get(&self, key: &str) -> (r: Option<&Value>)
        ensures (r is Some) == (ext_get(*self, key@) is Some), r is Some ==> *r->Some_0 == ext_get(*self, key@)->Some_0 { unimplemented!() }
}
pub struct SchemaObject {
    pub metadata: Option<Box<Metadata>>,
    pub instance_type: Option<SingleOrVec<InstanceType>>,
    pub format: Option<String>,
    pub enum_values: Option<Vec<Value>>,
    pub const_value: Option<Value>,
    pub subschemas: Option<Box<SubschemaValidation>>,
    pub number: Option<Box<NumberValidation>>,
    pub string: Option<Box<StringValidation>>,
    pub array: Option<Box<ArrayValidation>>,
    pub object: Option<Box<ObjectValidation>>,
    pub reference: Option<String>,
    pub extensions: ExtMap,
}
pub enum JSchema { Bool(bool), Object(SchemaObject) }
/// openapiv3::*
#[verifier::external_body]
pub struct OExtMap { _p: u8 }
/// the entries of the OpenAPI extension map, as a function of key
pub uninterp spec fn oext_get(m: OExtMap, key: Seq<char>) -> Option<Value>;
pub uninterp spec fn starts_with_x(key: Seq<char>) -> bool;
pub enum ReferenceOr<T> { Reference { reference: String }, Item(T) }
pub struct SchemaData {
    pub nullable: bool, pub read_only: bool, pub write_only: bool, pub deprecated: bool,
    pub external_docs: Option<OpaqueV>, pub example: Option<Value>, pub title: Option<String>, pub description: Option<String>,
    pub discriminator: Option<OpaqueV>, pub default: Option<Value>, pub extensions: OExtMap,
}
pub open spec fn empty_data(d: SchemaData) -> bool {
    !d.nullable && !d.read_only && !d.write_only && !d.deprecated && d.external_docs is None && d.example is None
    && d.title is None && d.description is None && d.discriminator is None && d.default is None
    && forall|k: Seq<char>| oext_get(d.extensions, k) is None
}
impl Default for SchemaData {
    #[verifier::external_body]
    fn default() -> (r: SchemaData) ensures empty_data(r) { unimplemented!() }
}
#[verifier::external_body] pub struct AnySchema { _p: u8 }
pub uninterp spec fn any_default() -> AnySchema;
impl Default for AnySchema { #[verifier::external_body] fn default() -> (r: AnySchema) ensures r == any_default() { unimplemented!() } }
pub struct StringType { pub format: Option<OpaqueV>, pub pattern: Option<String>, pub enumeration: Vec<Option<String>>, pub min_length: Option<usize>, pub max_length: Option<usize> }
impl Default for StringType {
    #[verifier::external_body]
    fn default() -> (r: StringType) ensures r.format is None, r.pattern is None, r.enumeration@.len() == 0, r.min_length is None, r.max_length is None { unimplemented!() }
}
pub struct BooleanType { pub enumeration: Vec<Option<bool>> }
pub enum Type { String(StringType), Number(OpaqueV), Integer(OpaqueV), Object(OpaqueV), Array(OpaqueV), Boolean(BooleanType) }
pub enum SchemaKind {
    Type(Type), OneOf { one_of: Vec<ReferenceOr<OSchema>> }, AllOf { all_of: Vec<ReferenceOr<OSchema>> },
    AnyOf { any_of: Vec<ReferenceOr<OSchema>> }, Not { not: Box<ReferenceOr<OSchema>> }, Any(AnySchema),
}
pub struct OSchema { pub schema_data: SchemaData, pub schema_kind: SchemaKind }

// ---- TRUSTED: the per-kind converters (schema_util.rs; checked on the real crate by Kani unit K5) as uninterpreted
// functions of their arguments ----
pub uninterp spec fn conv_object(o: Option<Box<ObjectValidation>>) -> SchemaKind;
pub uninterp spec fn conv_array(a: Option<Box<ArrayValidation>>) -> SchemaKind;
pub uninterp spec fn conv_number(f: Option<String>, n: Option<Box<NumberValidation>>, e: Option<Vec<Value>>) -> SchemaKind;
pub uninterp spec fn conv_string(f: Option<String>, s: Option<Box<StringValidation>>, e: Option<Vec<Value>>) -> SchemaKind;
pub uninterp spec fn conv_integer(f: Option<String>, n: Option<Box<NumberValidation>>, e: Option<Vec<Value>>) -> SchemaKind;
pub uninterp spec fn conv_subschemas(s: SubschemaValidation) -> SchemaKind;
#[verifier::external_body] pub fn j2oas_object(object: &Option<Box<ObjectValidation>>) -> (r: SchemaKind) ensures r == conv_object(*object) { unimplemented!() }
#[verifier::external_body] pub fn j2oas_array(array: &Option<Box<ArrayValidation>>) -> (r: SchemaKind) ensures r == conv_array(*array) { unimplemented!() }
#[verifier::external_body] pub fn j2oas_number(format: &Option<String>, number: &Option<Box<NumberValidation>>, enum_values: &Option<Vec<Value>>) -> (r: SchemaKind) ensures r == conv_number(*format, *number, *enum_values) { unimplemented!() }
#[verifier::external_body] pub fn j2oas_string(format: &Option<String>, string: &Option<Box<StringValidation>>, enum_values: &Option<Vec<Value>>) -> (r: SchemaKind) ensures r == conv_string(*format, *string, *enum_values) { unimplemented!() }
#[verifier::external_body] pub fn j2oas_integer(format: &Option<String>, number: &Option<Box<NumberValidation>>, enum_values: &Option<Vec<Value>>) -> (r: SchemaKind) ensures r == conv_integer(*format, *number, *enum_values) { unimplemented!() }
#[verifier::external_body] pub fn j2oas_subschemas(subschemas: &SubschemaValidation) -> (r: SchemaKind) ensures r == conv_subschemas(*subschemas) { unimplemented!() }
/// W1: the boolean enumeration chain -- one entry per enum value: null -> None, a boolean -> Some(it); anything else
/// is not a boolean schema's enumeration (the real code panics)
pub open spec fn bool_values_only(vs: Seq<Value>) -> bool { forall|i: int| 0 <= i < vs.len() ==> (#[trigger] vs[i]) is Null || vs[i] is Bool }
#[verifier::external_body]
pub fn bool_enumeration(values: &Vec<Value>) -> (r: Vec<Option<bool>>)
    requires bool_values_only(values@)
    ensures r@.len() == values@.len(),
        forall|i: int| 0 <= i < values@.len() ==> (#[trigger] r@[i]) == (match values@[i] { Value::Bool(b) => Some(b), _ => None::<bool> }),
{ unimplemented!() }
/// W1: the extension-preserving chain: exactly the entries whose key starts with "x-", with equal values
#[verifier::external_body]
pub fn x_extensions(m: &ExtMap) -> (r: OExtMap)
    ensures forall|k: Seq<char>| #[trigger] oext_get(r, k) == (if starts_with_x(k) { ext_get(*m, k) } else { None::<Value> })
{ unimplemented!() }
