// ---- CHECKED: what j2oas_schema_object must preserve, from the statement of C08 ----
/// inputs the converter supports (on the others the real code panics: a type array, a type together with subschemas,
/// a boolean schema whose enumeration holds something else than null / booleans)
pub open spec fn supported(obj: SchemaObject) -> bool {
    &&& !(obj.instance_type is Some && obj.instance_type->Some_0 is Vec)
    &&& !(obj.instance_type is Some && obj.subschemas is Some)
    &&& (obj.instance_type is Some && obj.instance_type->Some_0 is Single && *obj.instance_type->Some_0->Single_0 is Boolean
            && obj.subschemas is None && obj.enum_values is Some ==> bool_values_only(obj.enum_values->Some_0@))
}
/// "keeps its annotations (title, description, format, default, nullability, deprecation, x- extensions, example)"
pub open spec fn annotations_kept(name: Option<&String>, obj: SchemaObject, d: SchemaData) -> bool {
    ann_nullable(obj, d) && ann_title(name, obj, d) && ann_text(obj, d) && ann_flags(obj, d) && ann_ext(obj, d)
}
pub open spec fn ann_nullable(obj: SchemaObject, d: SchemaData) -> bool { d.nullable == (ext_get(obj.extensions, "nullable"@) == Some(Value::Bool(true))) }
/// the type's own title is kept; where the caller supplies a name for an inline schema (gen_openapi does, for request
/// and response bodies) the title may be that name instead -- C08 does not say which of the two wins, so both are allowed
pub open spec fn ann_title(name: Option<&String>, obj: SchemaObject, d: SchemaData) -> bool {
    let own = (match obj.metadata { Some(m) => m.title, None => None::<String> });
    match name { Some(n) => d.title == Some(*n) || d.title == own, None => d.title == own }
}
pub open spec fn ann_text(obj: SchemaObject, d: SchemaData) -> bool {
    let md = obj.metadata;
    &&& d.description == (match md { Some(m) => m.description, None => None })
    &&& d.default == (match md { Some(m) => m.default, None => None })
    &&& d.example == ext_get(obj.extensions, "example"@)
}
pub open spec fn ann_flags(obj: SchemaObject, d: SchemaData) -> bool {
    let md = obj.metadata;
    &&& d.deprecated == (match md { Some(m) => m.deprecated, None => false })
    &&& d.read_only == (match md { Some(m) => m.read_only, None => false })
    &&& d.write_only == (match md { Some(m) => m.write_only, None => false })
    &&& d.external_docs is None && d.discriminator is None
}
pub open spec fn ann_ext(obj: SchemaObject, d: SchemaData) -> bool {
    forall|k: Seq<char>| #[trigger] oext_get(d.extensions, k) == (if starts_with_x(k) { ext_get(obj.extensions, k) } else { None::<Value> })
}
/// the kind of schema is decided by the instance type / the subschemas, each handed to its own converter
pub open spec fn kind_dispatched(obj: SchemaObject, k: SchemaKind) -> bool {
    match (obj.instance_type, obj.subschemas) {
        (Some(SingleOrVec::Single(t)), None) => match *t {
            InstanceType::Null => k matches SchemaKind::Type(Type::String(st)) && st.enumeration@.len() == 1 && st.enumeration@[0] is None
                && st.format is Empty && st.pattern is None && st.min_length is None && st.max_length is None,
            InstanceType::Boolean => k matches SchemaKind::Type(Type::Boolean(bt)) && (match obj.enum_values {
                Some(vs) => bt.enumeration@.len() == vs@.len()
                    && forall|i: int| 0 <= i < vs@.len() ==> (#[trigger] bt.enumeration@[i]) == (match vs@[i] { Value::Bool(b) => Some(b), _ => None::<bool> }),
                None => bt.enumeration@.len() == 0 }),
            InstanceType::Object => k == conv_object(obj.object),
            InstanceType::Array => k == conv_array(obj.array),
            InstanceType::Number => k == conv_number(obj.format, obj.number, obj.enum_values),
            InstanceType::String => k == conv_string(obj.format, obj.string, obj.enum_values),
            InstanceType::Integer => k == conv_integer(obj.format, obj.number, obj.enum_values),
        },
        (None, Some(s)) => k == conv_subschemas(*s),
        (None, None) => k == SchemaKind::Any(any_default()),
        _ => true,   // excluded by `supported`
    }
}

proof fn sentinel_v19_prelude_consistent()
    ensures false
{}
proof fn sentinel_annotations_not_trivial(name: Option<&String>, obj: SchemaObject, d: SchemaData)
    ensures annotations_kept(name, obj, d)
{}
