//@ ret r
//@ contract
    requires supported(*obj)
    ensures
        // a $ref stays the same $ref
        obj.reference is Some ==> r == (ReferenceOr::<OSchema>::Reference { reference: obj.reference->Some_0 }), // @reference_is_passed_through
        obj.reference is None ==> r is Item && ann_nullable(*obj, r->Item_0.schema_data), // @nullability_kept
        obj.reference is None ==> r is Item && ann_title(name, *obj, r->Item_0.schema_data), // @title_kept_or_replaced_by_the_given_name
        obj.reference is None ==> r is Item && ann_text(*obj, r->Item_0.schema_data), // @description_default_example_kept
        obj.reference is None ==> r is Item && ann_flags(*obj, r->Item_0.schema_data), // @deprecated_read_only_write_only_kept
        obj.reference is None ==> r is Item && ann_ext(*obj, r->Item_0.schema_data), // @x_extensions_kept
        obj.reference is None && !(obj.instance_type matches Some(SingleOrVec::Single(t)) && (*t is Null || *t is Boolean)) ==> r is Item && kind_dispatched(*obj, r->Item_0.schema_kind), // @kind_follows_the_instance_type_and_subschemas
        obj.reference is None && (obj.instance_type matches Some(SingleOrVec::Single(t)) && *t is Null) ==> r is Item && kind_dispatched(*obj, r->Item_0.schema_kind), // @null_type_is_the_null_enumeration
        obj.reference is None && (obj.instance_type matches Some(SingleOrVec::Single(t)) && *t is Boolean) ==> r is Item && kind_dispatched(*obj, r->Item_0.schema_kind), // @boolean_enumeration_kept
//@ closure 0
|values: &Vec<Value>| -> (e: Vec<Option<bool>>) requires bool_values_only(values@) ensures e@.len() == values@.len(), forall|i: int| 0 <= i < values@.len() ==> (#[trigger] e@[i]) == (match values@[i] { Value::Bool(b) => Some(b), _ => None::<bool> })
