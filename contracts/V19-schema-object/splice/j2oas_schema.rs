//@ ret r
//@ contract
    requires
        !(*schema matches JSchema::Bool(false)),            // "We don't expect to see a schema that matches the null set"
        *schema matches JSchema::Object(o) ==> supported(o),
    ensures
        // the permissive schema `true` becomes the `any` schema without annotations
        *schema matches JSchema::Bool(true) ==> r is Item && empty_data(r->Item_0.schema_data) && r->Item_0.schema_kind == SchemaKind::Any(any_default()), // @true_schema_is_any
        *schema matches JSchema::Object(o) ==> (o.reference is Some ==> r == (ReferenceOr::<OSchema>::Reference { reference: o.reference->Some_0 }))
            && (o.reference is None ==> r is Item && annotations_kept(name, o, r->Item_0.schema_data) && kind_dispatched(o, r->Item_0.schema_kind)), // @object_schema_goes_through_schema_object
