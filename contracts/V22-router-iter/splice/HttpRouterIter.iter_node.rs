//@ ret r
//@ contract
    ensures prem(*r) == children(*node),        // @every_child_exactly_once
//@ closure 0
|entry: (&'a String, &'a Box<HttpRouterNode<Context>>)| -> (o: (PathSegment, &'a Box<HttpRouterNode<Context>>)) ensures o.0 == PathSegment::Literal(*entry.0), o.1 == entry.1
let (s, node) = entry;
//@ body_start
    broadcast use ax_string_ext, ax_key_order;
