//@ ret r
//@ contract
    requires self.path@.len() >= 1,      // `self.path[1..]` (next() calls it only while an item is pending: iter_wf)
    ensures r@ == render(route_of(self.path@)),     // @the_labels_above_the_placeholder_in_order_joined_by_slashes
//@ closure 0
|entry: &(PathSegment, Box<PathIter<'a, Context>>)| -> (t: String) ensures t@ == seg_text(entry.0)
let (c, _) = entry;
//@ before "fmt1(\"/{}\"" 0
        proof {
            let route = route_of(self.path@);
            assert(texts_of(components@) =~= Seq::new(route.len(), |i: int| seg_text(route[i])));
        }
