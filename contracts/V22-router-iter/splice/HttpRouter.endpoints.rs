//@ ret r
//@ contract
    ensures
        rest(r) == dfs(*self.root, Seq::<PathSegment>::empty(), version),       // @the_listing_is_that_of_the_whole_trie_at_this_version
        iter_wf(r),
