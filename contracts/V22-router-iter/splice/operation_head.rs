//@ ret r
//@ contract
    ensures
        r.operation_id == Some(endpoint.operation_id),      // @an_operation_carries_its_endpoints_operation_id
        r.summary == endpoint.summary && r.description == endpoint.description && r.tags == endpoint.tags
            && r.deprecated == endpoint.deprecated,         // @and_its_summary_description_tags_and_deprecated_flag
//@ body_start
    broadcast use ax_string_ext;
