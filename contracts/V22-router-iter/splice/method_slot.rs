//@ ret r
//@ contract
    requires slot_of(method@) is Some,       // one of the eight methods a path item has a slot for (anything else: the code panics)
    ensures
        *r == read_slot(*old(pathitem), slot_of(method@)->Some_0),                                   // @an_operation_goes_under_its_own_method
        *final(pathitem) == write_slot(*old(pathitem), slot_of(method@)->Some_0, *final(r)),        // @and_touches_no_other_slot
//@ body_start
    proof {
        method_names_differ();
        assert forall|a: &str| #[trigger] a@ == "GET"@ implies a == "GET" by { ax_str_ext(a, "GET"); }
        assert forall|a: &str| #[trigger] a@ == "PUT"@ implies a == "PUT" by { ax_str_ext(a, "PUT"); }
        assert forall|a: &str| #[trigger] a@ == "POST"@ implies a == "POST" by { ax_str_ext(a, "POST"); }
        assert forall|a: &str| #[trigger] a@ == "DELETE"@ implies a == "DELETE" by { ax_str_ext(a, "DELETE"); }
        assert forall|a: &str| #[trigger] a@ == "OPTIONS"@ implies a == "OPTIONS" by { ax_str_ext(a, "OPTIONS"); }
        assert forall|a: &str| #[trigger] a@ == "HEAD"@ implies a == "HEAD" by { ax_str_ext(a, "HEAD"); }
        assert forall|a: &str| #[trigger] a@ == "PATCH"@ implies a == "PATCH" by { ax_str_ext(a, "PATCH"); }
        assert forall|a: &str| #[trigger] a@ == "TRACE"@ implies a == "TRACE" by { ax_str_ext(a, "TRACE"); }
    }
