//@ ret r
//@ contract
    ensures
        // C06: one operation for each PUBLISHED endpoint whose range contains `version`, and nothing else (which
        // endpoints the listing holds: listing_is_exact / one_operation_per_method)
        doc_ops::<Context>(r) == doc_of(dfs(*self.router.root, Seq::<PathSegment>::empty(), Some(version))),   // @one_operation_per_visible_listed_endpoint_and_nothing_else
//@ loop 0 invariant
            invariant iter_wf(listing),
                doc_ops::<Context>(openapi) + doc_of(rest(listing)) == doc_of(dfs(*self.router.root, Seq::<PathSegment>::empty(), Some(version))),   // @emitted_so_far_plus_what_is_ahead_is_the_visible_listing
            ensures doc_ops::<Context>(openapi) =~= doc_of(dfs(*self.router.root, Seq::<PathSegment>::empty(), Some(version))),
            decreases rest(listing).len(),
//@ loop 0 body_start
            proof {
                // the item just taken was the head of what was ahead
                assert(Seq::<Op<Context>>::empty() + doc_of(rest(listing)) =~= doc_of(rest(listing)));
            }
