//@ attrs
#[verifier::exec_allows_no_decreases_clause]
//@ ret r
//@ contract
    ensures
        // C06: one operation for each PUBLISHED endpoint whose range contains `version`, and nothing else (which
        // endpoints the listing holds: listing_is_exact / one_operation_per_method)
        doc_ops::<Context>(r) == visible_only(dfs(*self.router.root, Some(version))),   // @one_operation_per_visible_listed_endpoint_and_nothing_else
//@ loop 0 invariant
            invariant iter_wf(listing),
                doc_ops::<Context>(openapi) + visible_only(rest(listing)) == visible_only(dfs(*self.router.root, Some(version))),   // @emitted_so_far_plus_what_is_ahead_is_the_visible_listing
            ensures doc_ops::<Context>(openapi) =~= visible_only(dfs(*self.router.root, Some(version))),
//@ loop 0 body_start
            proof {
                // the item just taken was the head of what was ahead
                visible_only_step((method, *endpoint), rest(listing));
                assert(Seq::<Listed<Context>>::empty() + visible_only(rest(listing)) =~= visible_only(rest(listing)));
            }
