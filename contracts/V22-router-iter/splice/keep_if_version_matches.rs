//@ ret r
//@ contract
    ensures
        (r is Some) == (keep_spec(*m, *h, version) is Some),        // @listed_iff_the_range_contains_the_version
        r is Some ==> *r->Some_0.0 == *m && *r->Some_0.1 == *h,     // @listed_as_itself
