//@ ret r
//@ contract
    ensures
        rest(r) == dfs(*router.root, Seq::<PathSegment>::empty(), version),     // @starts_with_the_whole_listing_ahead
        iter_wf(r),
        r.version == version,
//@ body_start
    broadcast use lemma_single_stack, route_of_single;
    proof { dfs_unfold(*router.root, Seq::<PathSegment>::empty(), version); }
