//@ ret r
//@ contract
    requires iter_wf(*old(self)),
    ensures iter_wf(*final(self)),
        final(self).version == old(self).version,
        // None: nothing was left; Some: the first of what was left, and the rest is still ahead
        r is None ==> rest(*old(self)).len() == 0 && rest(*final(self)).len() == 0,                         // @stops_only_when_nothing_is_left
        r is Some ==> rest(*old(self)).len() > 0 && rest(*old(self)).skip(1) =~= rest(*final(self))
                && r->Some_0.1 == rest(*old(self))[0].1 && *r->Some_0.2 == rest(*old(self))[0].2,               // @yields_the_listing_in_order_nothing_skipped_nothing_twice
        r is Some ==> r->Some_0.0@ == render(rest(*old(self))[0].0),                                          // @each_under_the_text_of_the_route_to_its_node
//@ loop 0 invariant
            invariant iter_wf(*self), self.version == old(self).version,
                rest(*self) == rest(*old(self)),        // @moving_between_nodes_loses_nothing_and_adds_nothing
            decreases stack_work(self.path@),
//@ loop 0 body_start
            broadcast use ax_string_ext;
            let ghost mut before = *self;
            proof { if mrem(self.method).len() > 0 { attach_step(route_of(self.path@), mrem(self.method)); } }
//@ before "match self.path.last_mut()"
                    proof { before = *self; }
//@ loop 0 body_end
            proof {
                // reached only from the two arms that go on: one level up (child iterator exhausted) or one level down
                let q = before.path@;
                let p = self.path@;
                if q.len() > 0 && prem(*q.last().1).len() == 0 && p =~= q.drop_last() {
                    lemma_ascend(q, self.version);
                } else if q.len() > 0 && prem(*q.last().1).len() > 0 && p.len() == q.len() + 1 && p.drop_last().drop_last() =~= q.drop_last()
                    && p.drop_last().last().0 == q.last().0 && p.last().0 == prem(*q.last().1)[0].0
                    && prem(*p.drop_last().last().1) == prem(*q.last().1).skip(1) && prem(*p.last().1) == children(prem(*q.last().1)[0].1) {
                    lemma_descend(q, p, self.version);
                    work_descend(q, p);
                }
            }
