//@ ret r
//@ contract
    ensures out_src(r) == dfs(*this.router.root, Seq::<PathSegment>::empty(), Some(version)),      // @ad_hoc_tags_are_gathered_from_the_listing_at_this_version
//@ closure 0
|item: (String, String, &'a ApiEndpoint<Context>)| -> (f: TagFilter<'a>)
let (_, _, endpoint) = item;
//@ closure 1
|tag: &&'a String| -> (b: bool) ensures b == !this.tag_config.tags@.contains_key(**tag)
//@ closure 2
|tag: String| -> (t: OTag) ensures t.name == tag
//@ body_start
    broadcast use vstd::std_specs::hash::group_hash_axioms, axiom_string_obeys_key_model;
