//@ ret r
//@ contract
    ensures
        // the first error type with this name keeps the name; the k-th one (k >= 2) gets the number k appended
        r@ == (if seen(*old(error_response_names), name@) == 0 { name@ } else { numbered(name@, seen(*old(error_response_names), name@) + 1) }),   // @same_named_error_types_get_distinct_response_names
        seen(*final(error_response_names), name@) == seen(*old(error_response_names), name@) + 1,
