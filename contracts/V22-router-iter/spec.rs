//@ include ../_common/spec_version.rs
//@ include ../_common/spec_router.rs

// ---- CHECKED: what the listing of a trie at a version is (C06: "one operation for each endpoint whose version
// range contains v, and nothing else") ----
pub open spec fn matches_v(r: ApiEndpointVersions, version: Option<&Version>) -> bool {
    match version { None => true, Some(v) => in_range(r, *v) }
}
pub type Route = Seq<PathSegment>;
pub type Pair<C> = (String, ApiEndpoint<C>);
/// one entry of the listing: the route (edge labels from the root) of the node, the method name, the endpoint
pub type Listed<C> = (Route, String, ApiEndpoint<C>);

/// the version filter: what the innermost closure of iter_handlers_from_node returns
pub open spec fn keep_spec<C: ServerContext>(m: String, h: ApiEndpoint<C>, version: Option<&Version>) -> Option<Pair<C>> {
    if matches_v(h.versions, version) { Some((m, h)) } else { None }
}
pub open spec fn kept<C: ServerContext>(m: String, hs: Seq<ApiEndpoint<C>>, version: Option<&Version>) -> Seq<Pair<C>>
    decreases hs.len()
{
    if hs.len() == 0 { Seq::empty() }
    else {
        (match keep_spec(m, hs[0], version) { Some(x) => seq![x], None => Seq::empty() }) + kept(m, hs.skip(1), version)
    }
}
pub open spec fn own_from<C: ServerContext>(keys: Seq<String>, n: HttpRouterNode<C>, version: Option<&Version>) -> Seq<Pair<C>>
    decreases keys.len()
{
    if keys.len() == 0 { Seq::empty() }
    else { kept(keys[0], handlers_for(n, keys[0]), version) + own_from(keys.skip(1), n, version) }
}
/// the (method name, endpoint) pairs of ONE node that are served at the version
pub open spec fn own_pairs<C: ServerContext>(n: HttpRouterNode<C>, version: Option<&Version>) -> Seq<Pair<C>> {
    own_from(key_order(n.methods@.dom()), n, version)
}
/// the same pairs, each with the route of the node they were found at
pub open spec fn attach<C: ServerContext>(route: Route, s: Seq<Pair<C>>) -> Seq<Listed<C>> {
    Seq::new(s.len(), |i: int| (route, s[i].0, s[i].1))
}
pub open spec fn own_items<C: ServerContext>(route: Route, n: HttpRouterNode<C>, version: Option<&Version>) -> Seq<Listed<C>> {
    attach(route, own_pairs(n, version))
}
/// the children of a node with the label of the edge that leads to each, as the route's TEMPLATE writes it: a literal,
/// `{name}` for a single-segment variable, `{name:.*}` for a wildcard (C06: "under its ... path template")
pub open spec fn children<C: ServerContext>(n: HttpRouterNode<C>) -> Seq<(PathSegment, HttpRouterNode<C>)> {
    match n.edges {
        None => Seq::empty(),
        Some(HttpRouterEdges::Literals(m)) => Seq::new(key_order(m@.dom()).len(), |i: int| (PathSegment::Literal(key_order(m@.dom())[i]), *m@[key_order(m@.dom())[i]])),
        Some(HttpRouterEdges::VariableSingle(name, child)) => seq![(PathSegment::VarnameSegment(name), *child)],
        Some(HttpRouterEdges::VariableRest(name, child)) => seq![(PathSegment::VarnameWildcard(name), *child)],
    }
}
/// the whole listing of the sub-trie under a node reached by `route`, at a version: the node's own pairs, then each
/// child's listing under the route extended by that child's edge label
pub open spec fn dfs<C: ServerContext>(n: HttpRouterNode<C>, route: Route, version: Option<&Version>) -> Seq<Listed<C>>
    decreases n, 0nat
{
    own_items(route, n, version) + (match n.edges {
        None => Seq::empty(),
        Some(HttpRouterEdges::Literals(m)) => dfs_lit(m, key_order(m@.dom()), route, version),
        Some(HttpRouterEdges::VariableSingle(name, child)) => dfs(*child, route.push(PathSegment::VarnameSegment(name)), version),
        Some(HttpRouterEdges::VariableRest(name, child)) => dfs(*child, route.push(PathSegment::VarnameWildcard(name)), version),
    })
}
pub open spec fn dfs_lit<C: ServerContext>(m: BTreeMap<String, Box<HttpRouterNode<C>>>, keys: Seq<String>, route: Route, version: Option<&Version>) -> Seq<Listed<C>>
    decreases m, keys.len()
{
    if keys.len() == 0 { Seq::empty() }
    else {
        (if m@.contains_key(keys[0]) { dfs(*m@[keys[0]], route.push(PathSegment::Literal(keys[0])), version) } else { Seq::empty() })
            + dfs_lit(m, keys.skip(1), route, version)
    }
}
/// the listings of a sequence of labelled sub-tries, one after the other
pub open spec fn flat<C: ServerContext>(s: Seq<(PathSegment, HttpRouterNode<C>)>, route: Route, version: Option<&Version>) -> Seq<Listed<C>>
    decreases s.len()
{
    if s.len() == 0 { Seq::empty() } else { dfs(s[0].1, route.push(s[0].0), version) + flat(s.skip(1), route, version) }
}
pub open spec fn lit_children<C: ServerContext>(m: BTreeMap<String, Box<HttpRouterNode<C>>>, keys: Seq<String>) -> Seq<(PathSegment, HttpRouterNode<C>)> {
    Seq::new(keys.len(), |i: int| (PathSegment::Literal(keys[i]), *m@[keys[i]]))
}
pub proof fn lit_flat<C: ServerContext>(m: BTreeMap<String, Box<HttpRouterNode<C>>>, keys: Seq<String>, route: Route, version: Option<&Version>)
    requires forall|i: int| 0 <= i < keys.len() ==> m@.contains_key(#[trigger] keys[i]),
    ensures dfs_lit(m, keys, route, version) == flat(lit_children(m, keys), route, version),
    decreases keys.len()
{
    if keys.len() > 0 {
        lit_flat(m, keys.skip(1), route, version);
        assert(lit_children(m, keys).skip(1) =~= lit_children(m, keys.skip(1)));
        assert(lit_children(m, keys)[0] == (PathSegment::Literal(keys[0]), *m@[keys[0]]));
    }
}
/// dfs, said through `children`: a node's own pairs, then the listings of its children in order
pub proof fn dfs_unfold<C: ServerContext>(n: HttpRouterNode<C>, route: Route, version: Option<&Version>)
    ensures dfs(n, route, version) == own_items(route, n, version) + flat(children(n), route, version)
{
    broadcast use ax_key_order;
    match n.edges {
        None => {}
        Some(HttpRouterEdges::Literals(m)) => {
            assert forall|i: int| 0 <= i < key_order(m@.dom()).len() implies m@.contains_key(#[trigger] key_order(m@.dom())[i]) by {
                assert(key_order(m@.dom()).contains(key_order(m@.dom())[i]));
            }
            lit_flat(m, key_order(m@.dom()), route, version);
            assert(children(n) =~= lit_children(m, key_order(m@.dom())));
        }
        Some(HttpRouterEdges::VariableSingle(name, child)) => {
            let s = children(n);
            assert(s.len() == 1 && s[0] == (PathSegment::VarnameSegment(name), *child));
            assert(flat(s.skip(1), route, version) =~= Seq::<Listed<C>>::empty());
            assert(flat(s, route, version) == dfs(s[0].1, route.push(s[0].0), version) + flat(s.skip(1), route, version));
            assert(flat(s, route, version) =~= dfs(*child, route.push(PathSegment::VarnameSegment(name)), version));
        }
        Some(HttpRouterEdges::VariableRest(name, child)) => {
            let s = children(n);
            assert(s.len() == 1 && s[0] == (PathSegment::VarnameWildcard(name), *child));
            assert(flat(s.skip(1), route, version) =~= Seq::<Listed<C>>::empty());
            assert(flat(s, route, version) == dfs(s[0].1, route.push(s[0].0), version) + flat(s.skip(1), route, version));
            assert(flat(s, route, version) =~= dfs(*child, route.push(PathSegment::VarnameWildcard(name)), version));
        }
    }
}

// ---- the iterator's abstract state: what it has yet to yield ----
/// the route of the node on top of the stack: the labels on the stack above the placeholder at the bottom
pub open spec fn route_of<'a, C: ServerContext>(p: Seq<(PathSegment, Box<PathIter<'a, C>>)>) -> Route {
    Seq::new(if p.len() > 0 { (p.len() - 1) as nat } else { 0 }, |i: int| p[i + 1].0)
}
pub open spec fn stack_rest<'a, C: ServerContext>(p: Seq<(PathSegment, Box<PathIter<'a, C>>)>, version: Option<&Version>) -> Seq<Listed<C>>
    decreases p.len()
{
    if p.len() == 0 { Seq::empty() } else { flat(prem(*p.last().1), route_of(p), version) + stack_rest(p.drop_last(), version) }
}
pub open spec fn rest<'a, C: ServerContext>(it: HttpRouterIter<'a, C>) -> Seq<Listed<C>> {
    attach(route_of(it.path@), mrem(it.method)) + stack_rest(it.path@, it.version)
}
/// with an empty stack the traversal is over: nothing may be pending in the method iterator
pub open spec fn iter_wf<'a, C: ServerContext>(it: HttpRouterIter<'a, C>) -> bool {
    it.path@.len() == 0 ==> mrem(it.method).len() == 0
}
/// taking the head of the method iterator takes the head of what is ahead
pub proof fn attach_step<C: ServerContext>(route: Route, s: Seq<Pair<C>>)
    requires s.len() > 0,
    ensures attach(route, s) == seq![(route, s[0].0, s[0].1)] + attach(route, s.skip(1)),
{
    assert(attach(route, s) =~= seq![(route, s[0].0, s[0].1)] + attach(route, s.skip(1)));
}
pub broadcast proof fn route_of_single<'a, C: ServerContext>(p: Seq<(PathSegment, Box<PathIter<'a, C>>)>)
    requires p.len() == 1,
    ensures #[trigger] route_of(p) == Seq::<PathSegment>::empty(),
{
    assert(route_of(p) =~= Seq::<PathSegment>::empty());
}
pub broadcast proof fn lemma_single_stack<'a, C: ServerContext>(p: Seq<(PathSegment, Box<PathIter<'a, C>>)>, version: Option<&Version>)
    requires p.len() == 1,
    ensures #[trigger] stack_rest(p, version) == flat(prem(*p[0].1), Seq::<PathSegment>::empty(), version),
{
    assert(route_of(p) =~= Seq::<PathSegment>::empty());
    assert(stack_rest(p.drop_last(), version) =~= Seq::<Listed<C>>::empty());
    assert(stack_rest(p, version) =~= flat(prem(*p.last().1), route_of(p), version));
}
pub proof fn lemma_ascend<'a, C: ServerContext>(q: Seq<(PathSegment, Box<PathIter<'a, C>>)>, version: Option<&Version>)
    requires q.len() > 0, prem(*q.last().1).len() == 0,
    ensures stack_rest(q, version) == stack_rest(q.drop_last(), version),
{
    assert(flat(prem(*q.last().1), route_of(q), version) =~= Seq::<Listed<C>>::empty());
    assert(stack_rest(q, version) =~= stack_rest(q.drop_last(), version));
}
pub proof fn lemma_descend<'a, C: ServerContext>(q: Seq<(PathSegment, Box<PathIter<'a, C>>)>, p: Seq<(PathSegment, Box<PathIter<'a, C>>)>,
    version: Option<&Version>)
    requires q.len() > 0, prem(*q.last().1).len() > 0,
        p.len() == q.len() + 1, p.drop_last().drop_last() == q.drop_last(),
        p.drop_last().last().0 == q.last().0,
        prem(*p.drop_last().last().1) == prem(*q.last().1).skip(1),
        p.last().0 == prem(*q.last().1)[0].0,
        prem(*p.last().1) == children(prem(*q.last().1)[0].1),
    ensures stack_rest(q, version) == own_items(route_of(p), prem(*q.last().1)[0].1, version) + stack_rest(p, version),
{
    let r0 = prem(*q.last().1);
    let node = r0[0].1;
    let seg = r0[0].0;
    assert(route_of(p) =~= route_of(q).push(seg)) by {
        assert forall|i: int| 0 <= i < route_of(p).len() implies route_of(p)[i] == route_of(q).push(seg)[i] by {
            if i + 1 < q.len() - 1 {
                assert(p[i + 1] == p.drop_last().drop_last()[i + 1]);
                assert(q[i + 1] == q.drop_last()[i + 1]);
            } else if i + 1 == q.len() - 1 {
                assert(p[i + 1] == p.drop_last().last());
            } else {
                assert(p[i + 1] == p.last());
            }
        }
    }
    assert(route_of(p.drop_last()) =~= route_of(q)) by {
        assert forall|i: int| 0 <= i < route_of(q).len() implies route_of(p.drop_last())[i] == route_of(q)[i] by {
            if i + 1 < q.len() - 1 {
                assert(p.drop_last()[i + 1] == p.drop_last().drop_last()[i + 1]);
                assert(q[i + 1] == q.drop_last()[i + 1]);
            } else {
                assert(p.drop_last()[i + 1] == p.drop_last().last());
            }
        }
    }
    dfs_unfold(node, route_of(p), version);
    let s = stack_rest(q.drop_last(), version);
    assert(flat(r0, route_of(q), version) == dfs(node, route_of(q).push(seg), version) + flat(r0.skip(1), route_of(q), version));
    assert(stack_rest(p.drop_last(), version) == flat(r0.skip(1), route_of(q), version) + s);
    assert(stack_rest(p, version) == flat(children(node), route_of(p), version) + stack_rest(p.drop_last(), version));
    assert(stack_rest(q, version) == flat(r0, route_of(q), version) + s);
    assert(stack_rest(q, version) =~= own_items(route_of(p), node, version) + stack_rest(p, version));
}

// ---- what the listing contains: exactly the endpoints stored in the trie whose range contains the version ----
pub proof fn concat_contains<T>(a: Seq<T>, b: Seq<T>, x: T)
    ensures (a + b).contains(x) <==> (a.contains(x) || b.contains(x))
{
    if a.contains(x) { let i = choose|i: int| 0 <= i < a.len() && a[i] == x; assert((a + b)[i] == x); }
    if b.contains(x) { let i = choose|i: int| 0 <= i < b.len() && b[i] == x; assert((a + b)[a.len() + i] == x); }
    if (a + b).contains(x) {
        let i = choose|i: int| 0 <= i < (a + b).len() && (a + b)[i] == x;
        if i < a.len() { assert(a[i] == x); } else { assert(b[i - a.len()] == x); }
    }
}
/// an endpoint is stored under method name `m` at the node of the sub-trie under `n` (itself reached by `route`)
/// whose route from the root is `at`
pub open spec fn holds<C: ServerContext>(n: HttpRouterNode<C>, route: Route, at: Route, m: String, e: ApiEndpoint<C>) -> bool
    decreases n
{
    (route == at && handlers_for(n, m).contains(e)) || (match n.edges {
        None => false,
        Some(HttpRouterEdges::Literals(mp)) => exists|k: String| #[trigger] mp@.contains_key(k) && holds(*mp@[k], route.push(PathSegment::Literal(k)), at, m, e),
        Some(HttpRouterEdges::VariableSingle(name, child)) => holds(*child, route.push(PathSegment::VarnameSegment(name)), at, m, e),
        Some(HttpRouterEdges::VariableRest(name, child)) => holds(*child, route.push(PathSegment::VarnameWildcard(name)), at, m, e),
    })
}
pub proof fn attach_contains<C: ServerContext>(route: Route, s: Seq<Pair<C>>, at: Route, m: String, e: ApiEndpoint<C>)
    ensures attach(route, s).contains((at, m, e)) <==> (at == route && s.contains((m, e)))
{
    if attach(route, s).contains((at, m, e)) {
        let i = choose|i: int| 0 <= i < attach(route, s).len() && attach(route, s)[i] == (at, m, e);
        assert(s[i] == (m, e));
    }
    if at == route && s.contains((m, e)) {
        let i = choose|i: int| 0 <= i < s.len() && s[i] == (m, e);
        assert(attach(route, s)[i] == (at, m, e));
    }
}
pub proof fn kept_contains<C: ServerContext>(m0: String, hs: Seq<ApiEndpoint<C>>, version: Option<&Version>, m: String, e: ApiEndpoint<C>)
    ensures kept(m0, hs, version).contains((m, e)) <==> (m == m0 && hs.contains(e) && matches_v(e.versions, version))
    decreases hs.len()
{
    if hs.len() > 0 {
        kept_contains(m0, hs.skip(1), version, m, e);
        let head: Seq<Pair<C>> = match keep_spec(m0, hs[0], version) { Some(x) => seq![x], None => Seq::empty() };
        concat_contains(head, kept(m0, hs.skip(1), version), (m, e));
        if head.contains((m, e)) { assert(head[0] == (m, e)); assert(hs[0] == e); }
        if hs.contains(e) {
            let i = choose|i: int| 0 <= i < hs.len() && hs[i] == e;
            if i > 0 { assert(hs.skip(1)[i - 1] == e); }
            else if matches_v(e.versions, version) && m == m0 { assert(head[0] == (m, e)); }
        }
        if hs.skip(1).contains(e) {
            let i = choose|i: int| 0 <= i < hs.skip(1).len() && hs.skip(1)[i] == e;
            assert(hs[i + 1] == e);
        }
    }
}
pub proof fn own_from_contains<C: ServerContext>(keys: Seq<String>, n: HttpRouterNode<C>, version: Option<&Version>, m: String, e: ApiEndpoint<C>)
    ensures own_from(keys, n, version).contains((m, e)) <==> (keys.contains(m) && handlers_for(n, m).contains(e) && matches_v(e.versions, version))
    decreases keys.len()
{
    if keys.len() > 0 {
        own_from_contains(keys.skip(1), n, version, m, e);
        kept_contains(keys[0], handlers_for(n, keys[0]), version, m, e);
        concat_contains(kept(keys[0], handlers_for(n, keys[0]), version), own_from(keys.skip(1), n, version), (m, e));
        if keys.contains(m) {
            let i = choose|i: int| 0 <= i < keys.len() && keys[i] == m;
            if i > 0 { assert(keys.skip(1)[i - 1] == m); }
        }
        if keys.skip(1).contains(m) {
            let i = choose|i: int| 0 <= i < keys.skip(1).len() && keys.skip(1)[i] == m;
            assert(keys[i + 1] == m);
        }
    }
}
/// C06: "one operation - under its method, path template ... - for each endpoint whose version range contains v,
/// and nothing else" -- on the listing the document is assembled from: (route, method, endpoint) is listed iff the
/// endpoint is stored under that method name at the node with that route and its range contains the version
pub proof fn listing_is_exact<C: ServerContext>(n: HttpRouterNode<C>, route: Route, version: Option<&Version>, at: Route, m: String, e: ApiEndpoint<C>)
    ensures dfs(n, route, version).contains((at, m, e)) <==> (holds(n, route, at, m, e) && matches_v(e.versions, version))
    decreases n, 0nat
{
    broadcast use ax_key_order;
    own_from_contains(key_order(n.methods@.dom()), n, version, m, e);
    attach_contains(route, own_pairs(n, version), at, m, e);
    let below: Seq<Listed<C>> = match n.edges {
        None => Seq::empty(),
        Some(HttpRouterEdges::Literals(mp)) => dfs_lit(mp, key_order(mp@.dom()), route, version),
        Some(HttpRouterEdges::VariableSingle(name, child)) => dfs(*child, route.push(PathSegment::VarnameSegment(name)), version),
        Some(HttpRouterEdges::VariableRest(name, child)) => dfs(*child, route.push(PathSegment::VarnameWildcard(name)), version),
    };
    concat_contains(own_items(route, n, version), below, (at, m, e));
    assert(handlers_for(n, m).contains(e) ==> n.methods@.contains_key(m)) by {
        if !n.methods@.contains_key(m) { assert(handlers_for(n, m) =~= Seq::<ApiEndpoint<C>>::empty()); }
    }
    match n.edges {
        None => {}
        Some(HttpRouterEdges::Literals(mp)) => {
            lit_listing_is_exact(mp, key_order(mp@.dom()), route, version, at, m, e);
            if exists|k: String| #[trigger] mp@.contains_key(k) && holds(*mp@[k], route.push(PathSegment::Literal(k)), at, m, e) {
                let k = choose|k: String| #[trigger] mp@.contains_key(k) && holds(*mp@[k], route.push(PathSegment::Literal(k)), at, m, e);
                assert(key_order(mp@.dom()).contains(k));
            }
        }
        Some(HttpRouterEdges::VariableSingle(name, child)) => { listing_is_exact(*child, route.push(PathSegment::VarnameSegment(name)), version, at, m, e); }
        Some(HttpRouterEdges::VariableRest(name, child)) => { listing_is_exact(*child, route.push(PathSegment::VarnameWildcard(name)), version, at, m, e); }
    }
}
pub proof fn lit_listing_is_exact<C: ServerContext>(mp: BTreeMap<String, Box<HttpRouterNode<C>>>, keys: Seq<String>, route: Route, version: Option<&Version>,
    at: Route, m: String, e: ApiEndpoint<C>)
    ensures dfs_lit(mp, keys, route, version).contains((at, m, e))
        <==> (matches_v(e.versions, version) && exists|k: String| #![trigger mp@.contains_key(k)] keys.contains(k) && mp@.contains_key(k)
                && holds(*mp@[k], route.push(PathSegment::Literal(k)), at, m, e))
    decreases mp, keys.len()
{
    if keys.len() > 0 {
        lit_listing_is_exact(mp, keys.skip(1), route, version, at, m, e);
        let head: Seq<Listed<C>> = if mp@.contains_key(keys[0]) { dfs(*mp@[keys[0]], route.push(PathSegment::Literal(keys[0])), version) } else { Seq::empty() };
        concat_contains(head, dfs_lit(mp, keys.skip(1), route, version), (at, m, e));
        if mp@.contains_key(keys[0]) { listing_is_exact(*mp@[keys[0]], route.push(PathSegment::Literal(keys[0])), version, at, m, e); }
        let p = |k: String| keys.contains(k) && mp@.contains_key(k) && holds(*mp@[k], route.push(PathSegment::Literal(k)), at, m, e);
        let q = |k: String| keys.skip(1).contains(k) && mp@.contains_key(k) && holds(*mp@[k], route.push(PathSegment::Literal(k)), at, m, e);
        if exists|k: String| #![trigger mp@.contains_key(k)] q(k) {
            let k = choose|k: String| #![trigger mp@.contains_key(k)] q(k);
            let i = choose|i: int| 0 <= i < keys.skip(1).len() && keys.skip(1)[i] == k;
            assert(keys[i + 1] == k);
            assert(p(k));
        }
        if head.contains((at, m, e)) { assert(keys.contains(keys[0])); assert(p(keys[0])); }
        if exists|k: String| #![trigger mp@.contains_key(k)] p(k) {
            let k = choose|k: String| #![trigger mp@.contains_key(k)] p(k);
            let i = choose|i: int| 0 <= i < keys.len() && keys[i] == k;
            if i > 0 { assert(keys.skip(1)[i - 1] == k); assert(q(k)); }
        }
    }
}

// ---- "one operation for each": under one method name of one node at most one endpoint is listed, and once ----
pub proof fn kept_none<C: ServerContext>(m: String, hs: Seq<ApiEndpoint<C>>, version: Option<&Version>)
    requires forall|i: int| 0 <= i < hs.len() ==> !matches_v(#[trigger] hs[i].versions, version),
    ensures kept(m, hs, version).len() == 0
    decreases hs.len()
{
    if hs.len() > 0 {
        assert forall|i: int| 0 <= i < hs.skip(1).len() implies !matches_v(#[trigger] hs.skip(1)[i].versions, version) by { assert(hs.skip(1)[i] == hs[i + 1]); }
        kept_none(m, hs.skip(1), version);
    }
}
/// the endpoints stored for one method name pairwise share no version (wf_node, kept by insert: V14), so at most
/// one of them is listed at a given version
pub proof fn kept_at_most_one<C: ServerContext>(m: String, hs: Seq<ApiEndpoint<C>>, v: &Version)
    requires forall|i: int, j: int| #![trigger hs[i], hs[j]] 0 <= i < j < hs.len() ==> !shared(hs[i].versions, hs[j].versions),
    ensures kept(m, hs, Some(v)).len() <= 1
    decreases hs.len()
{
    if hs.len() > 0 {
        let t = hs.skip(1);
        assert forall|i: int, j: int| #![trigger t[i], t[j]] 0 <= i < j < t.len() implies !shared(t[i].versions, t[j].versions) by {
            assert(t[i] == hs[i + 1] && t[j] == hs[j + 1]);
        }
        kept_at_most_one(m, t, v);
        if matches_v(hs[0].versions, Some(v)) {
            assert forall|i: int| 0 <= i < t.len() implies !matches_v(#[trigger] t[i].versions, Some(v)) by {
                assert(t[i] == hs[i + 1]);
                if matches_v(t[i].versions, Some(v)) {
                    assert(in_range(hs[0].versions, *v) && in_range(hs[i + 1].versions, *v));
                    assert(shared(hs[0].versions, hs[i + 1].versions));
                }
            }
            kept_none(m, t, Some(v));
        }
    }
}
pub proof fn concat_no_duplicates<T>(a: Seq<T>, b: Seq<T>)
    requires a.no_duplicates(), b.no_duplicates(), forall|i: int, j: int| 0 <= i < a.len() && 0 <= j < b.len() ==> a[i] != b[j],
    ensures (a + b).no_duplicates()
{}
pub proof fn own_from_no_duplicates<C: ServerContext>(keys: Seq<String>, n: HttpRouterNode<C>, v: &Version)
    requires wf_node(n), keys.no_duplicates(), forall|i: int| 0 <= i < keys.len() ==> n.methods@.contains_key(#[trigger] keys[i]),
    ensures own_from(keys, n, Some(v)).no_duplicates()
    decreases keys.len()
{
    if keys.len() > 0 {
        let t = keys.skip(1);
        assert forall|i: int| 0 <= i < t.len() implies n.methods@.contains_key(#[trigger] t[i]) by { assert(t[i] == keys[i + 1]); }
        assert(t.no_duplicates()) by {
            assert forall|i: int, j: int| 0 <= i < t.len() && 0 <= j < t.len() && i != j implies t[i] != t[j] by {
                assert(t[i] == keys[i + 1] && t[j] == keys[j + 1]);
            }
        }
        own_from_no_duplicates(t, n, v);
        let a = kept(keys[0], handlers_for(n, keys[0]), Some(v));
        let b = own_from(t, n, Some(v));
        assert(n.methods@.contains_key(keys[0]));
        kept_at_most_one(keys[0], handlers_for(n, keys[0]), v);
        assert forall|i: int, j: int| 0 <= i < a.len() && 0 <= j < b.len() implies a[i] != b[j] by {
            assert(a.contains(a[i]));
            assert(b.contains(b[j]));
            kept_contains(keys[0], handlers_for(n, keys[0]), Some(v), a[i].0, a[i].1);
            own_from_contains(t, n, Some(v), b[j].0, b[j].1);
            if a[i] == b[j] {
                let k = choose|k: int| 0 <= k < t.len() && t[k] == b[j].0;
                assert(keys[k + 1] == keys[0]);
            }
        }
        concat_no_duplicates(a, b);
    }
}
/// a node lists no (method name, endpoint) pair twice, and never two endpoints under one method name
pub proof fn one_operation_per_method<C: ServerContext>(n: HttpRouterNode<C>, v: &Version)
    requires wf_node(n),
    ensures own_pairs(n, Some(v)).no_duplicates(),
        forall|m: String, e1: ApiEndpoint<C>, e2: ApiEndpoint<C>| own_pairs(n, Some(v)).contains((m, e1)) && own_pairs(n, Some(v)).contains((m, e2)) ==> e1 == e2,
{
    broadcast use ax_key_order;
    let keys = key_order(n.methods@.dom());
    assert forall|i: int| 0 <= i < keys.len() implies n.methods@.contains_key(#[trigger] keys[i]) by { assert(keys.contains(keys[i])); }
    own_from_no_duplicates(keys, n, v);
    assert forall|m: String, e1: ApiEndpoint<C>, e2: ApiEndpoint<C>| own_pairs(n, Some(v)).contains((m, e1)) && own_pairs(n, Some(v)).contains((m, e2)) implies e1 == e2 by {
        own_from_contains(keys, n, Some(v), m, e1);
        own_from_contains(keys, n, Some(v), m, e2);
        let hs = handlers_for(n, m);
        let i = choose|i: int| 0 <= i < hs.len() && hs[i] == e1;
        let j = choose|j: int| 0 <= j < hs.len() && hs[j] == e2;
        if i != j {
            assert(in_range(e1.versions, *v) && in_range(e2.versions, *v));
            if i < j { assert(shared(hs[i].versions, hs[j].versions)); } else { assert(shared(hs[j].versions, hs[i].versions)); }
            assert(n.methods@.contains_key(m));
            assert(hs == n.methods@[m]@);
        }
    }
}

/// the text of one label: a literal as it is, a variable in braces (whatever `format!` makes of the two templates)
pub open spec fn seg_text(c: PathSegment) -> Seq<char> {
    match c {
        PathSegment::Literal(s) => s@,
        PathSegment::VarnameSegment(s) => fmt_spec("{{{}}}"@, s@),
        PathSegment::VarnameWildcard(s) => fmt_spec("{{{}:.*}}"@, s@),
    }
}
/// the text a route is rendered as: "/" followed by the labels' texts joined by "/"
pub open spec fn render(route: Route) -> Seq<char> {
    fmt_spec("/{}"@, join_spec(Seq::new(route.len(), |i: int| seg_text(route[i])), "/"@))
}

/// what a `for` loop over the iterator sees: calling next() until it says None yields exactly what was ahead, in
/// order (a consumer written only to show that next's contract is strong enough to conclude this; gen_openapi's
/// own loop is verified below)
pub fn drain<'a, C: ServerContext>(it0: HttpRouterIter<'a, C>) -> (out: Vec<(String, String, &'a ApiEndpoint<C>)>)
    requires iter_wf(it0),
    ensures out@.len() == rest(it0).len(),
        forall|i: int| 0 <= i < out@.len() ==> (#[trigger] out@[i]).0@ == render(rest(it0)[i].0) && out@[i].1 == rest(it0)[i].1 && *out@[i].2 == rest(it0)[i].2,
{
    let mut it = it0;
    let ghost all = rest(it);
    let mut out: Vec<(String, String, &'a ApiEndpoint<C>)> = Vec::new();
    loop
        invariant all == rest(it0), iter_wf(it), out@.len() + rest(it).len() == all.len(),
            forall|i: int| 0 <= i < out@.len() ==> (#[trigger] out@[i]).0@ == render(all[i].0) && out@[i].1 == all[i].1 && *out@[i].2 == all[i].2,
            forall|i: int| 0 <= i < rest(it).len() ==> rest(it)[i] == all[out@.len() + i],
        decreases rest(it).len(),
    {
        let ghost before = rest(it);
        match it.next() {
            None => { return out; }
            Some(x) => {
                proof {
                    assert(before[0].1 == x.1 && before[0].2 == *x.2 && x.0@ == render(before[0].0));
                    assert forall|i: int| 0 <= i < rest(it).len() implies rest(it)[i] == all[out@.len() + 1 + i] by {
                        assert(rest(it)[i] == before[i + 1]);
                    }
                }
                out.push(x);
            }
        }
    }
}

// ---- the document's operations: the visible part of the listing, each under the text of its route ----
pub type Op<C> = (Seq<char>, String, ApiEndpoint<C>);
pub open spec fn doc_of<C: ServerContext>(s: Seq<Listed<C>>) -> Seq<Op<C>>
    decreases s.len()
{
    if s.len() == 0 { Seq::empty() }
    else { (if s[0].2.visible { seq![(render(s[0].0), s[0].1, s[0].2)] } else { Seq::empty() }) + doc_of(s.skip(1)) }
}
pub proof fn doc_of_step<C: ServerContext>(s: Seq<Listed<C>>, t: Seq<Listed<C>>)
    requires s.len() > 0, t == s.skip(1),
    ensures doc_of(s) == (if s[0].2.visible { seq![(render(s[0].0), s[0].1, s[0].2)] } else { Seq::empty() }) + doc_of(t)
{}

// ---- "the document is the same whatever order the endpoints were registered in": the one thing in a trie that
// records registration order -- the order inside the list kept for one method name -- does not reach the listing ----
pub open spec fn same_members<T>(a: Seq<T>, b: Seq<T>) -> bool { forall|x: T| a.contains(x) <==> b.contains(x) }
/// two tries of the same shape that hold, for every node and method name, the same endpoints in any order
pub open spec fn agree_mod_order<C: ServerContext>(a: HttpRouterNode<C>, b: HttpRouterNode<C>) -> bool
    decreases a
{
    &&& a.methods@.dom() == b.methods@.dom()
    &&& (forall|k: String| #[trigger] a.methods@.contains_key(k) ==> same_members(a.methods@[k]@, b.methods@[k]@))
    &&& match (a.edges, b.edges) {
        (None, None) => true,
        (Some(HttpRouterEdges::Literals(ma)), Some(HttpRouterEdges::Literals(mb))) =>
            ma@.dom() == mb@.dom() && (forall|k: String| #[trigger] ma@.contains_key(k) ==> agree_mod_order(*ma@[k], *mb@[k])),
        (Some(HttpRouterEdges::VariableSingle(x, ca)), Some(HttpRouterEdges::VariableSingle(y, cb))) => x == y && agree_mod_order(*ca, *cb),
        (Some(HttpRouterEdges::VariableRest(x, ca)), Some(HttpRouterEdges::VariableRest(y, cb))) => x == y && agree_mod_order(*ca, *cb),
        _ => false,
    }
}
pub open spec fn pairwise_disjoint<C: ServerContext>(hs: Seq<ApiEndpoint<C>>) -> bool {
    forall|i: int, j: int| #![trigger hs[i], hs[j]] 0 <= i < j < hs.len() ==> !shared(hs[i].versions, hs[j].versions)
}
pub proof fn kept_same<C: ServerContext>(m: String, h1: Seq<ApiEndpoint<C>>, h2: Seq<ApiEndpoint<C>>, v: &Version)
    requires pairwise_disjoint(h1), pairwise_disjoint(h2), same_members(h1, h2),
    ensures kept(m, h1, Some(v)) == kept(m, h2, Some(v))
{
    let k1 = kept(m, h1, Some(v));
    let k2 = kept(m, h2, Some(v));
    kept_at_most_one(m, h1, v);
    kept_at_most_one(m, h2, v);
    if k1.len() == 1 {
        assert(k1.contains(k1[0]));
        kept_contains(m, h1, Some(v), k1[0].0, k1[0].1);
        kept_contains(m, h2, Some(v), k1[0].0, k1[0].1);
        let i = choose|i: int| 0 <= i < k2.len() && k2[i] == k1[0];
    }
    if k2.len() == 1 {
        assert(k2.contains(k2[0]));
        kept_contains(m, h2, Some(v), k2[0].0, k2[0].1);
        kept_contains(m, h1, Some(v), k2[0].0, k2[0].1);
        let i = choose|i: int| 0 <= i < k1.len() && k1[i] == k2[0];
    }
    assert(k1 =~= k2);
}
pub proof fn own_from_same<C: ServerContext>(keys: Seq<String>, a: HttpRouterNode<C>, b: HttpRouterNode<C>, v: &Version)
    requires wf_node(a), wf_node(b),
        forall|i: int| 0 <= i < keys.len() ==> a.methods@.contains_key(#[trigger] keys[i]) && b.methods@.contains_key(keys[i])
            && same_members(a.methods@[keys[i]]@, b.methods@[keys[i]]@),
    ensures own_from(keys, a, Some(v)) == own_from(keys, b, Some(v))
    decreases keys.len()
{
    if keys.len() > 0 {
        let t = keys.skip(1);
        assert forall|i: int| 0 <= i < t.len() implies a.methods@.contains_key(#[trigger] t[i]) && b.methods@.contains_key(t[i])
            && same_members(a.methods@[t[i]]@, b.methods@[t[i]]@) by { assert(t[i] == keys[i + 1]); }
        own_from_same(t, a, b, v);
        assert(a.methods@.contains_key(keys[0]) && b.methods@.contains_key(keys[0]));
        kept_same(keys[0], handlers_for(a, keys[0]), handlers_for(b, keys[0]), v);
    }
}
pub proof fn listing_ignores_the_order_inside_a_method_list<C: ServerContext>(a: HttpRouterNode<C>, b: HttpRouterNode<C>, route: Route, v: &Version)
    requires wf_node(a), wf_node(b), agree_mod_order(a, b),
    ensures dfs(a, route, Some(v)) == dfs(b, route, Some(v))
    decreases a, 0nat
{
    broadcast use ax_key_order;
    let keys = key_order(a.methods@.dom());
    assert forall|i: int| 0 <= i < keys.len() implies a.methods@.contains_key(#[trigger] keys[i]) && b.methods@.contains_key(keys[i])
        && same_members(a.methods@[keys[i]]@, b.methods@[keys[i]]@) by {
        assert(keys.contains(keys[i]));
        assert(a.methods@.dom().contains(keys[i]));
        assert(b.methods@.dom().contains(keys[i]));
    }
    own_from_same(keys, a, b, v);
    match (a.edges, b.edges) {
        (Some(HttpRouterEdges::Literals(ma)), Some(HttpRouterEdges::Literals(mb))) => {
            lit_listing_ignores_order(ma, mb, key_order(ma@.dom()), route, v);
        }
        (Some(HttpRouterEdges::VariableSingle(x, ca)), Some(HttpRouterEdges::VariableSingle(y, cb))) => {
            listing_ignores_the_order_inside_a_method_list(*ca, *cb, route.push(PathSegment::VarnameSegment(x)), v);
        }
        (Some(HttpRouterEdges::VariableRest(x, ca)), Some(HttpRouterEdges::VariableRest(y, cb))) => {
            listing_ignores_the_order_inside_a_method_list(*ca, *cb, route.push(PathSegment::VarnameWildcard(x)), v);
        }
        _ => {}
    }
}
pub proof fn lit_listing_ignores_order<C: ServerContext>(ma: BTreeMap<String, Box<HttpRouterNode<C>>>, mb: BTreeMap<String, Box<HttpRouterNode<C>>>,
    keys: Seq<String>, route: Route, v: &Version)
    requires ma@.dom() == mb@.dom(),
        forall|k: String| #[trigger] ma@.contains_key(k) ==> wf_node(*ma@[k]) && wf_node(*mb@[k]) && agree_mod_order(*ma@[k], *mb@[k]),
    ensures dfs_lit(ma, keys, route, Some(v)) == dfs_lit(mb, keys, route, Some(v))
    decreases ma, keys.len()
{
    if keys.len() > 0 {
        lit_listing_ignores_order(ma, mb, keys.skip(1), route, v);
        assert(ma@.contains_key(keys[0]) == mb@.contains_key(keys[0])) by {
            assert(ma@.dom().contains(keys[0]) == mb@.dom().contains(keys[0]));
        }
        if ma@.contains_key(keys[0]) {
            listing_ignores_the_order_inside_a_method_list(*ma@[keys[0]], *mb@[keys[0]], route.push(PathSegment::Literal(keys[0])), v);
        }
    }
}

// ---- "under its method": which slot of a path item an operation for a method name goes to ----
pub enum Slot { Get, Put, Post, Delete, Options, Head, Patch, Trace }
/// the slot NAMED by the method (from the property: an operation is listed under its own method)
pub open spec fn slot_of(name: Seq<char>) -> Option<Slot> {
    if name == "GET"@ { Some(Slot::Get) } else if name == "PUT"@ { Some(Slot::Put) } else if name == "POST"@ { Some(Slot::Post) }
    else if name == "DELETE"@ { Some(Slot::Delete) } else if name == "OPTIONS"@ { Some(Slot::Options) } else if name == "HEAD"@ { Some(Slot::Head) }
    else if name == "PATCH"@ { Some(Slot::Patch) } else if name == "TRACE"@ { Some(Slot::Trace) } else { None }
}
pub open spec fn read_slot(p: PathItem, s: Slot) -> Option<Operation> {
    match s { Slot::Get => p.get, Slot::Put => p.put, Slot::Post => p.post, Slot::Delete => p.delete,
              Slot::Options => p.options, Slot::Head => p.head, Slot::Patch => p.patch, Slot::Trace => p.trace }
}
pub open spec fn write_slot(p: PathItem, s: Slot, v: Option<Operation>) -> PathItem {
    match s {
        Slot::Get => PathItem { get: v, ..p }, Slot::Put => PathItem { put: v, ..p }, Slot::Post => PathItem { post: v, ..p },
        Slot::Delete => PathItem { delete: v, ..p }, Slot::Options => PathItem { options: v, ..p }, Slot::Head => PathItem { head: v, ..p },
        Slot::Patch => PathItem { patch: v, ..p }, Slot::Trace => PathItem { trace: v, ..p },
    }
}
pub proof fn method_names_differ()
    ensures "GET"@ != "PUT"@, "GET"@ != "POST"@, "GET"@ != "DELETE"@, "GET"@ != "OPTIONS"@, "GET"@ != "HEAD"@, "GET"@ != "PATCH"@, "GET"@ != "TRACE"@,
        "PUT"@ != "POST"@, "PUT"@ != "DELETE"@, "PUT"@ != "OPTIONS"@, "PUT"@ != "HEAD"@, "PUT"@ != "PATCH"@, "PUT"@ != "TRACE"@,
        "POST"@ != "DELETE"@, "POST"@ != "OPTIONS"@, "POST"@ != "HEAD"@, "POST"@ != "PATCH"@, "POST"@ != "TRACE"@,
        "DELETE"@ != "OPTIONS"@, "DELETE"@ != "HEAD"@, "DELETE"@ != "PATCH"@, "DELETE"@ != "TRACE"@,
        "OPTIONS"@ != "HEAD"@, "OPTIONS"@ != "PATCH"@, "OPTIONS"@ != "TRACE"@,
        "HEAD"@ != "PATCH"@, "HEAD"@ != "TRACE"@, "PATCH"@ != "TRACE"@,
{
    reveal_strlit("GET"); reveal_strlit("PUT"); reveal_strlit("POST"); reveal_strlit("DELETE");
    reveal_strlit("OPTIONS"); reveal_strlit("HEAD"); reveal_strlit("PATCH"); reveal_strlit("TRACE");
    assert("GET"@.len() == 3 && "PUT"@.len() == 3 && "POST"@.len() == 4 && "DELETE"@.len() == 6 && "OPTIONS"@.len() == 7
        && "HEAD"@.len() == 4 && "PATCH"@.len() == 5 && "TRACE"@.len() == 5);
    assert("GET"@[0] == 'G' && "PUT"@[0] == 'P');
    assert("POST"@[0] == 'P' && "HEAD"@[0] == 'H');
    assert("PATCH"@[0] == 'P' && "TRACE"@[0] == 'T');
}

// ---- termination of HttpRouterIter::next: every turn of its loop that does not yield uses up one unit of this ----
pub open spec fn tree_work<C: ServerContext>(n: HttpRouterNode<C>) -> nat
    decreases n, 0nat
{
    1 + (match n.edges {
        None => 0nat,
        Some(HttpRouterEdges::Literals(m)) => lit_work(m, key_order(m@.dom())),
        Some(HttpRouterEdges::VariableSingle(_, child)) => 1 + tree_work(*child),
        Some(HttpRouterEdges::VariableRest(_, child)) => 1 + tree_work(*child),
    })
}
pub open spec fn lit_work<C: ServerContext>(m: BTreeMap<String, Box<HttpRouterNode<C>>>, keys: Seq<String>) -> nat
    decreases m, keys.len()
{
    if keys.len() == 0 { 0 }
    else { (if m@.contains_key(keys[0]) { 1 + tree_work(*m@[keys[0]]) } else { 0 }) + lit_work(m, keys.skip(1)) }
}
pub open spec fn children_work<C: ServerContext>(s: Seq<(PathSegment, HttpRouterNode<C>)>) -> nat
    decreases s.len()
{
    if s.len() == 0 { 0 } else { 1 + tree_work(s[0].1) + children_work(s.skip(1)) }
}
pub proof fn lit_work_is_children_work<C: ServerContext>(m: BTreeMap<String, Box<HttpRouterNode<C>>>, keys: Seq<String>)
    requires forall|i: int| 0 <= i < keys.len() ==> m@.contains_key(#[trigger] keys[i]),
    ensures lit_work(m, keys) == children_work(lit_children(m, keys)),
    decreases keys.len()
{
    if keys.len() > 0 {
        lit_work_is_children_work(m, keys.skip(1));
        assert(lit_children(m, keys).skip(1) =~= lit_children(m, keys.skip(1)));
        assert(lit_children(m, keys)[0] == (PathSegment::Literal(keys[0]), *m@[keys[0]]));
    }
}
pub proof fn tree_work_unfold<C: ServerContext>(n: HttpRouterNode<C>)
    ensures tree_work(n) == 1 + children_work(children(n))
{
    broadcast use ax_key_order;
    match n.edges {
        None => {}
        Some(HttpRouterEdges::Literals(m)) => {
            assert forall|i: int| 0 <= i < key_order(m@.dom()).len() implies m@.contains_key(#[trigger] key_order(m@.dom())[i]) by {
                assert(key_order(m@.dom()).contains(key_order(m@.dom())[i]));
            }
            lit_work_is_children_work(m, key_order(m@.dom()));
            assert(children(n) =~= lit_children(m, key_order(m@.dom())));
        }
        Some(HttpRouterEdges::VariableSingle(name, child)) => {
            let s = children(n);
            assert(s.len() == 1 && s[0].1 == *child);
            assert(children_work(s.skip(1)) == 0);
        }
        Some(HttpRouterEdges::VariableRest(name, child)) => {
            let s = children(n);
            assert(s.len() == 1 && s[0].1 == *child);
            assert(children_work(s.skip(1)) == 0);
        }
    }
}
pub open spec fn stack_work<'a, C: ServerContext>(p: Seq<(PathSegment, Box<PathIter<'a, C>>)>) -> nat
    decreases p.len()
{
    if p.len() == 0 { 0 } else { 1 + children_work(prem(*p.last().1)) + stack_work(p.drop_last()) }
}
pub proof fn work_descend<'a, C: ServerContext>(q: Seq<(PathSegment, Box<PathIter<'a, C>>)>, p: Seq<(PathSegment, Box<PathIter<'a, C>>)>)
    requires q.len() > 0, prem(*q.last().1).len() > 0,
        p.len() == q.len() + 1, p.drop_last().drop_last() == q.drop_last(),
        prem(*p.drop_last().last().1) == prem(*q.last().1).skip(1),
        prem(*p.last().1) == children(prem(*q.last().1)[0].1),
    ensures stack_work(p) + 1 == stack_work(q),
{
    let r0 = prem(*q.last().1);
    tree_work_unfold(r0[0].1);
    assert(stack_work(p) == 1 + children_work(children(r0[0].1)) + stack_work(p.drop_last()));
    assert(stack_work(p.drop_last()) == 1 + children_work(r0.skip(1)) + stack_work(q.drop_last()));
    assert(stack_work(q) == 1 + children_work(r0) + stack_work(q.drop_last()));
}
