use vstd::prelude::*;
use vstd::std_specs::cmp::*;
use core::cmp::Ordering;
use std::collections::BTreeMap;
use std::collections::HashMap;
use std::collections::BTreeSet;
use std::sync::Arc;
//@ items
//@ include ../_common/prelude_version.rs
//@ include ../_common/prelude_http.rs
//@ include ../_common/prelude_router.rs

// ---- TRUSTED (V22) ----
impl Clone for PathSegment {
    #[verifier::external_body]
    fn clone(&self) -> (r: PathSegment) ensures r == *self { unimplemented!() }
}
/// the order in which BTreeMap<String, _>::iter visits the keys -- a function of the key set alone: some sequence
/// without repetition that covers exactly the keys (that it is the ascending order is not needed)
pub uninterp spec fn key_order(keys: Set<String>) -> Seq<String>;
pub broadcast axiom fn ax_key_order(keys: Set<String>)
    ensures #![trigger key_order(keys)]
        key_order(keys).no_duplicates(),
        forall|k: String| key_order(keys).contains(k) <==> keys.contains(k);

/// `Box<dyn Iterator<Item = (&'a String, &'a ApiEndpoint<C>)> + 'a>` (W2): an iterator is what it has yet to yield
#[verifier::external_body]
#[verifier::reject_recursive_types(C)]
pub struct MethodIter<'a, C: ServerContext> { _p: core::marker::PhantomData<&'a C> }
pub uninterp spec fn mrem<'a, C: ServerContext>(i: MethodIter<'a, C>) -> Seq<(String, ApiEndpoint<C>)>;   // = Seq<Pair<C>>
impl<'a, C: ServerContext> MethodIter<'a, C> {
    /// Iterator::next: the first remaining item, if any; an exhausted iterator stays exhausted (these are
    /// std's fused BTreeMap/slice iterators under flat_map/filter_map)
    #[verifier::external_body]
    pub fn next(&mut self) -> (r: Option<(&'a String, &'a ApiEndpoint<C>)>)
        ensures
            mrem(*old(self)).len() == 0 ==> r is None && mrem(*final(self)).len() == 0,
            mrem(*old(self)).len() > 0 ==> r is Some && *r->Some_0.0 == mrem(*old(self))[0].0 && *r->Some_0.1 == mrem(*old(self))[0].1
                && mrem(*final(self)) == mrem(*old(self)).skip(1),
    { unimplemented!() }
}
/// `dyn Iterator<Item = (PathSegment, &'a Box<HttpRouterNode<C>>)> + 'a` (the type alias PathIter is not extracted)
#[verifier::external_body]
#[verifier::reject_recursive_types(C)]
pub struct PathIter<'a, C: ServerContext> { _p: core::marker::PhantomData<&'a C> }
pub uninterp spec fn prem<'a, C: ServerContext>(i: PathIter<'a, C>) -> Seq<(PathSegment, HttpRouterNode<C>)>;
impl<'a, C: ServerContext> PathIter<'a, C> {
    #[verifier::external_body]
    pub fn next(&mut self) -> (r: Option<(PathSegment, &'a Box<HttpRouterNode<C>>)>)
        ensures
            prem(*old(self)).len() == 0 ==> r is None && prem(*final(self)).len() == 0,
            prem(*old(self)).len() > 0 ==> r is Some && r->Some_0.0 == prem(*old(self))[0].0 && **r->Some_0.1 == prem(*old(self))[0].1
                && prem(*final(self)) == prem(*old(self)).skip(1),
    { unimplemented!() }
}
/// `Box::new(std::iter::once(x))`: yields x, then nothing
#[verifier::external_body]
pub fn box_once<'a, C: ServerContext>(x: (PathSegment, &'a Box<HttpRouterNode<C>>)) -> (r: Box<PathIter<'a, C>>)
    ensures prem(*r) == seq![(x.0, **x.1)]
{ unimplemented!() }
/// `Box::new(std::iter::empty())`
#[verifier::external_body]
pub fn box_empty<'a, C: ServerContext>() -> (r: Box<PathIter<'a, C>>)
    ensures prem(*r).len() == 0
{ unimplemented!() }
/// `Box::new(map.iter().map(f))`: f applied to every entry, in the map's iteration order
#[verifier::external_body]
pub fn box_map_entries<'a, C: ServerContext, F>(map: &'a BTreeMap<String, Box<HttpRouterNode<C>>>, f: F) -> (r: Box<PathIter<'a, C>>)
    where F: Fn((&'a String, &'a Box<HttpRouterNode<C>>)) -> (PathSegment, &'a Box<HttpRouterNode<C>>)
    requires forall|e: (&'a String, &'a Box<HttpRouterNode<C>>)| call_requires(f, (e,)),
    ensures
        prem(*r).len() == key_order(map@.dom()).len(),
        forall|i: int| 0 <= i < prem(*r).len() ==> exists|o: (PathSegment, &'a Box<HttpRouterNode<C>>)|
            call_ensures(f, ((&key_order(map@.dom())[i], &map@[key_order(map@.dom())[i]]),), o) && #[trigger] prem(*r)[i] == (o.0, **o.1),
{ unimplemented!() }
/// iter_handlers_from_node: `node.methods.iter().flat_map(|(m, handlers)| handlers.iter().filter_map(P))` where P is
/// the closure verified as keep_if_version_matches (W12).  Documented behaviour of flat_map / filter_map over
/// BTreeMap::iter / slice::iter instantiated with P's contract (keep_spec)
#[verifier::external_body]
pub fn iter_handlers_from_node<'a, 'b, 'c, C: ServerContext>(node: &'a HttpRouterNode<C>, version: Option<&'b Version>) -> (r: MethodIter<'c, C>)
    where 'a: 'c, 'b: 'c
    ensures mrem(r) == own_pairs(*node, version)
{ unimplemented!() }
/// `format!(TEMPLATE, ARG)` (W6b): an uninterpreted function of the template and of the argument's text
pub uninterp spec fn fmt_spec(template: Seq<char>, arg: Seq<char>) -> Seq<char>;
pub trait HasText { spec fn text(&self) -> Seq<char>; }
impl HasText for String { open spec fn text(&self) -> Seq<char> { self@ } }
impl HasText for &String { open spec fn text(&self) -> Seq<char> { (*self)@ } }
#[verifier::external_body]
pub fn fmt1<A: HasText>(template: &str, arg: &A) -> (r: String) ensures r@ == fmt_spec(template@, arg.text()) { unimplemented!() }
/// `[String]::join(sep)`: an uninterpreted function of the pieces' texts and the separator
pub uninterp spec fn join_spec(pieces: Seq<Seq<char>>, sep: Seq<char>) -> Seq<char>;
pub open spec fn texts_of(v: Seq<String>) -> Seq<Seq<char>> { Seq::new(v.len(), |i: int| v[i]@) }
pub trait JoinExt { fn join_(&self, sep: &str) -> String; }
impl JoinExt for Vec<String> {
    #[verifier::external_body]
    fn join_(&self, sep: &str) -> (r: String) ensures r@ == join_spec(texts_of(self@), sep@) { unimplemented!() }
}
/// `v[1..].iter().map(f).collect::<Vec<_>>()` (W1): f applied to every element but the first, in order; `v[1..]`
/// panics on an empty vector
#[verifier::external_body]
pub fn map_tail<T, U, G: Fn(&T) -> U>(v: &Vec<T>, f: G) -> (r: Vec<U>)
    requires v@.len() >= 1, forall|x: &T| call_requires(f, (x,)),
    ensures r@.len() == v@.len() - 1, forall|i: int| 0 <= i < r@.len() ==> call_ensures(f, (&v@[i + 1],), #[trigger] r@[i]),
{ unimplemented!() }
/// openapiv3::Info / openapiv3::OpenAPI: the document is modelled only by the LOG of operations emitted into it
#[verifier::external_body]
pub struct OpenApiInfo { _p: u8 }
#[verifier::external_body]
pub struct OpenApiDoc { _p: u8 }
/// the operations emitted into the document so far: (path text, method name, endpoint), in emission order
pub uninterp spec fn doc_ops<C: ServerContext>(d: OpenApiDoc) -> Seq<(Seq<char>, String, ApiEndpoint<C>)>;
/// W10: everything gen_openapi does before its endpoint loop (no operation is emitted there)
#[verifier::external_body]
pub fn doc_prologue<C: ServerContext>(info: OpenApiInfo) -> (d: OpenApiDoc)
    ensures doc_ops::<C>(d).len() == 0
{ unimplemented!() }
/// W10: the body of the endpoint loop after the visibility test: emits ONE operation for this endpoint under this
/// path and method.  Its precondition is the property's "unpublished endpoints are omitted", proved at the call
#[verifier::external_body]
pub fn emit_operation<'a, C: ServerContext>(d: &mut OpenApiDoc, path: String, method: String, endpoint: &'a ApiEndpoint<C>)
    requires endpoint.visible,
    ensures doc_ops::<C>(*final(d)) == doc_ops::<C>(*old(d)).push((path@, method, *endpoint))
{ unimplemented!() }
/// W10: the collection of referenced schemas and error responses after the loop (emits no operation)
#[verifier::external_body]
pub fn finish_components<C: ServerContext>(d: &mut OpenApiDoc)
    ensures doc_ops::<C>(*final(d)) == doc_ops::<C>(*old(d))
{ unimplemented!() }
/// openapiv3::Operation / openapiv3::PathItem: the eight operation slots of a path item (other fields not modelled)
pub struct Operation {
    pub tags: Vec<String>, pub summary: Option<String>, pub description: Option<String>, pub operation_id: Option<String>,
    pub deprecated: bool, pub rest: OperationRest,
}
/// the other fields of openapiv3::Operation (parameters, request body, responses, ...): not modelled
#[verifier::external_body]
pub struct OperationRest { _p: u8 }
pub uninterp spec fn default_rest() -> OperationRest;
impl Default for Operation {
    #[verifier::external_body]
    fn default() -> (r: Operation)
        ensures r.tags@.len() == 0, r.summary is None, r.description is None, r.operation_id is None, !r.deprecated, r.rest == default_rest()
    { unimplemented!() }
}
/// Clone::clone_from: afterwards the target equals the source (a clone equals its original)
pub trait CloneFromExt { fn clone_from_(&mut self, src: &Self); }
impl CloneFromExt for Option<String> {
    #[verifier::external_body]
    fn clone_from_(&mut self, src: &Self) ensures *final(self) == *src { unimplemented!() }
}
impl CloneFromExt for Vec<String> {
    #[verifier::external_body]
    fn clone_from_(&mut self, src: &Self) ensures *final(self) == *src { unimplemented!() }
}
pub struct PathItem {
    pub get: Option<Operation>, pub put: Option<Operation>, pub post: Option<Operation>, pub delete: Option<Operation>,
    pub options: Option<Operation>, pub head: Option<Operation>, pub patch: Option<Operation>, pub trace: Option<Operation>,
}
/// A11: a str is determined by its characters
pub axiom fn ax_str_ext(a: &str, b: &str)
    ensures a@ == b@ ==> a == b;
/// HashMap<String, usize> counting how often each error-type name has been seen (gen_openapi's error_response_names)
#[verifier::external_body]
pub struct NameCounts { _p: u8 }
pub uninterp spec fn seen(c: NameCounts, name: Seq<char>) -> nat;
impl NameCounts {
    /// `.entry(name).and_modify(|num| *num += 1).or_insert(1)`: one more occurrence of this name, nothing else changes;
    /// the reference points at the new count
    #[verifier::external_body]
    pub fn count_one_more(&mut self, name: String) -> (r: &mut usize)
        ensures
            *r as nat == seen(*old(self), name@) + 1,
            seen(*final(self), name@) == seen(*old(self), name@) + 1,
            forall|other: Seq<char>| other != name@ ==> seen(*final(self), other) == #[trigger] seen(*old(self), other),
    { unimplemented!() }
}
/// `format!("{name}{num}")`: an uninterpreted function of the name and the number
pub uninterp spec fn numbered(name: Seq<char>, n: nat) -> Seq<char>;
#[verifier::external_body]
pub fn name_with_number(name: &String, num: usize) -> (r: String) ensures r@ == numbered(name@, num as nat) { unimplemented!() }

// ---- the tag walk of gen_openapi: std adapters that only remember which listing they were fed ----
#[verifier::external_body]
pub struct TagDetails { _p: u8 }
/// String keys of a HashMap obey vstd's key model (A8)
pub broadcast axiom fn axiom_string_obeys_key_model()
    ensures #[trigger] vstd::std_specs::hash::obeys_key_model::<String>();
#[verifier::external_body]
pub struct TagFilter<'a> { _p: core::marker::PhantomData<&'a u8> }
pub trait FilterTags { fn filter_tags<'a, F: Fn(&&'a String) -> bool>(&'a self, f: F) -> TagFilter<'a>; }
impl FilterTags for Vec<String> {
    /// `tags.iter().filter(pred)`
    #[verifier::external_body]
    fn filter_tags<'a, F: Fn(&&'a String) -> bool>(&'a self, f: F) -> TagFilter<'a> { unimplemented!() }
}
#[verifier::external_body]
#[verifier::reject_recursive_types(C)]
pub struct TagWalk<'a, C: ServerContext> { _p: core::marker::PhantomData<&'a C> }
/// the listing a tag walk draws its tags from
pub uninterp spec fn walk_src<'a, C: ServerContext>(w: TagWalk<'a, C>) -> Seq<(Seq<PathSegment>, String, ApiEndpoint<C>)>;
#[verifier::external_body]
#[verifier::reject_recursive_types(C)]
pub struct TagOut<'a, C: ServerContext> { _p: core::marker::PhantomData<&'a C> }
pub uninterp spec fn out_src<'a, C: ServerContext>(w: TagOut<'a, C>) -> Seq<(Seq<PathSegment>, String, ApiEndpoint<C>)>;
pub struct OTag { pub name: String, pub rest: OpaqueTagRest }
#[verifier::external_body]
pub struct OpaqueTagRest { _p: u8 }
impl Default for OTag { #[verifier::external_body] fn default() -> OTag { unimplemented!() } }
impl<'a, C: ServerContext> HttpRouterIter<'a, C> {
    /// `listing.flat_map(f)`: f applied to every item of the listing (what f makes of an item is not modelled)
    #[verifier::external_body]
    pub fn tags_of_each<F: Fn((String, String, &'a ApiEndpoint<C>)) -> TagFilter<'a>>(self, f: F) -> (r: TagWalk<'a, C>)
        requires forall|x: (String, String, &'a ApiEndpoint<C>)| call_requires(f, (x,)),
        ensures walk_src(r) == rest(self)
    { unimplemented!() }
}
impl<'a, C: ServerContext> TagWalk<'a, C> {
    #[verifier::external_body] pub fn cloned_(self) -> (r: TagWalk<'a, C>) ensures walk_src(r) == walk_src(self) { unimplemented!() }
    #[verifier::external_body] pub fn collect_set(self) -> (r: TagWalk<'a, C>) ensures walk_src(r) == walk_src(self) { unimplemented!() }
    #[verifier::external_body] pub fn into_iter_(self) -> (r: TagWalk<'a, C>) ensures walk_src(r) == walk_src(self) { unimplemented!() }
    #[verifier::external_body]
    pub fn map_tags<G: Fn(String) -> OTag>(self, g: G) -> (r: TagOut<'a, C>)
        requires forall|t: String| call_requires(g, (t,)),
        ensures out_src(r) == walk_src(self)
    { unimplemented!() }
}
