use vstd::prelude::*;
use vstd::std_specs::cmp::*;
//@ items
//@ include ../_common/prelude_http.rs
//@ include ../_common/prelude_error.rs
//@ include ../_common/prelude_response.rs
pub trait ServerContext {}
pub struct Opaque<T> { pub _p: core::marker::PhantomData<T> }

// ---- TRUSTED (V16) ----
/// std: Option::is_some_and / Option::is_none_or (no vstd contract in this build)
pub assume_specification<T, F: FnOnce(T) -> bool>[ Option::<T>::is_some_and ](o: Option<T>, f: F) -> (r: bool)
    requires o is Some ==> call_requires(f, (o->Some_0,)),
    ensures o is None ==> !r, o is Some ==> call_ensures(f, (o->Some_0,), r);
pub assume_specification<T, F: FnOnce(T) -> bool>[ Option::<T>::is_none_or ](o: Option<T>, f: F) -> (r: bool)
    requires o is Some ==> call_requires(f, (o->Some_0,)),
    ensures o is None ==> r, o is Some ==> call_ensures(f, (o->Some_0,), r);
#[verifier::external_body]
pub struct Logger { _p: u8 }
impl Logger {
    #[verifier::external_body]
    pub fn new(&self, _kv: ()) -> Logger { unimplemented!() }
}
pub struct RequestContext<C: ServerContext> { pub log: Logger, pub _c: core::marker::PhantomData<C> }
#[verifier::external_body]
pub struct Uri { _p: u8 }
impl Uri {
    #[verifier::external_body]
    pub fn to_string(&self) -> String { unimplemented!() }
}
/// hyper::Request<Body>: only the headers matter to the handshake
pub struct Request { pub headers: HeaderMap, pub uri: Uri }
impl Request {
    #[verifier::external_body]
    pub fn headers(&self) -> (r: &HeaderMap) ensures *r == self.headers { unimplemented!() }
    #[verifier::external_body]
    pub fn uri(&self) -> (r: &Uri) { unimplemented!() }
}
#[verifier::external_body]
pub struct OnUpgrade { _p: u8 }
#[verifier::external_body]
pub fn upgrade_on(request: Request) -> OnUpgrade { unimplemented!() }
/// HeaderMap::get: the first value stored under the name, if any
pub uninterp spec fn hm_get(h: HeaderMap, name: Seq<char>) -> Option<HeaderValue>;
/// which header values are visible ASCII (HeaderValue::to_str succeeds); the raw bytes of a value
pub uninterp spec fn hv_is_text(h: HeaderValue) -> bool;
pub uninterp spec fn hv_bytes(h: HeaderValue) -> Seq<u8>;
#[verifier::external_body]
#[derive(Debug)]
pub struct ToStrError { _p: u8 }
impl HeaderMap {
    #[verifier::external_body]
    pub fn get(&self, name: HeaderName) -> (r: Option<&HeaderValue>)
        ensures (r is Some) == (hm_get(*self, name.name@) is Some), r is Some ==> *r->Some_0 == hm_get(*self, name.name@)->Some_0 { unimplemented!() }
}
impl HeaderValue {
    #[verifier::external_body]
    pub fn to_str(&self) -> (r: Result<&str, ToStrError>)
        ensures (r is Ok) == hv_is_text(*self), r is Ok ==> r->Ok_0@ == hv_view(*self) { unimplemented!() }
    #[verifier::external_body]
    pub fn as_bytes(&self) -> (r: &[u8]) ensures r@ == hv_bytes(*self) { unimplemented!() }
}
#[verifier::external_body] pub fn header_connection() -> (r: HeaderName) ensures r.name@ == "connection"@ { unimplemented!() }
#[verifier::external_body] pub fn header_upgrade() -> (r: HeaderName) ensures r.name@ == "upgrade"@ { unimplemented!() }
#[verifier::external_body] pub fn header_sec_websocket_version() -> (r: HeaderName) ensures r.name@ == "sec-websocket-version"@ { unimplemented!() }
#[verifier::external_body] pub fn header_sec_websocket_key() -> (r: HeaderName) ensures r.name@ == "sec-websocket-key"@ { unimplemented!() }
#[verifier::external_body] pub fn header_sec_websocket_accept() -> (r: HeaderName) ensures r.name@ == "sec-websocket-accept"@ { unimplemented!() }
/// std: `s.split(pred)` -- the pieces of `s` between the characters on which `pred` is true (as &str values; which
/// pieces a text has is the uninterpreted `pieces_by`, keyed by the separator set the predicate accepts)
pub uninterp spec fn pieces_by<'a>(s: &'a str, seps: Set<char>) -> Seq<&'a str>;
pub struct SplitPieces<'a> { pub pieces: Ghost<Seq<&'a str>> }
/// `s.split(pred)` (W1 `.split(` -> `.split_by(`; the predicate closure STAYS and is verified under its own header):
/// the pieces between the characters the predicate accepts
pub trait SplitBy {
    fn split_by<F: Fn(char) -> bool>(&self, f: F) -> (r: SplitPieces<'_>)
        requires forall|c: char| call_requires(f, (c,));
}
impl SplitBy for str {
    #[verifier::external_body]
    fn split_by<F: Fn(char) -> bool>(&self, f: F) -> (r: SplitPieces<'_>)
        ensures forall|seps: Set<char>| (forall|c: char, b: bool| call_ensures(f, (c,), b) ==> b == seps.contains(c))
                    ==> r.pieces@ == #[trigger] pieces_by(self, seps),
    { unimplemented!() }
}
impl<'a> SplitPieces<'a> {
    /// Iterator::any: true iff the predicate returned true on some piece (evaluated on the pieces in order)
    #[verifier::external_body]
    pub fn any<F: Fn(&'a str) -> bool>(self, f: F) -> (r: bool)
        requires forall|p: &'a str| call_requires(f, (p,)),
        ensures
            r ==> exists|i: int| 0 <= i < self.pieces@.len() && call_ensures(f, (#[trigger] self.pieces@[i],), true),
            !r ==> forall|i: int| 0 <= i < self.pieces@.len() ==> call_ensures(f, (#[trigger] self.pieces@[i],), false),
    { unimplemented!() }
}
/// std: str equality is equality of the characters
pub assume_specification[ <str as PartialEq>::eq ](a: &str, b: &str) -> (r: bool) ensures r == (a@ == b@);
/// std: str::eq_ignore_ascii_case
pub uninterp spec fn ascii_lower(s: Seq<char>) -> Seq<char>;
pub trait EqIgnoreCase { fn eq_ignore_ascii_case_(&self, other: &str) -> bool; }
impl EqIgnoreCase for str {
    #[verifier::external_body]
    fn eq_ignore_ascii_case_(&self, other: &str) -> (r: bool) ensures r == (ascii_lower(self@) == ascii_lower(other@)) { unimplemented!() }
}
pub open spec fn list_separators() -> Set<char> { Set::empty().insert(',').insert(' ') }
/// `value.map(|v| v.as_bytes()) != Some(b"13")` (W1): the header is absent or its bytes are not exactly these
pub uninterp spec fn ascii_bytes(s: Seq<char>) -> Seq<u8>;
pub trait IsNotExactly { fn is_not_exactly(&self, text: &str) -> bool; }
impl IsNotExactly for Option<&HeaderValue> {
    #[verifier::external_body]
    fn is_not_exactly(&self, text: &str) -> (r: bool)
        ensures r == !(*self is Some && hv_bytes(*self->Some_0) == ascii_bytes(text@)) { unimplemented!() }
}
/// websocket.rs: derive_accept_key = base64(sha1(key ++ GUID)) (RFC 6455 4.2.2): sha1 and base64 are dependencies
/// and the `const WS_GUID: &[u8]` inside the function body is refused by the verus! macro: an uninterpreted function
pub uninterp spec fn accept_of(key: Seq<u8>) -> Seq<char>;
#[verifier::external_body]
pub fn derive_accept_key(request_key: &[u8]) -> (r: String) ensures r@ == accept_of(request_key@) { unimplemented!() }
/// base64 text is a legal header value
pub broadcast axiom fn ax_accept_key_is_header_value(key: Seq<u8>)
    ensures #[trigger] header_value_ok(accept_of(key));
pub broadcast axiom fn ax_upgrade_constants_ok()
    ensures #[trigger] header_value_ok("Upgrade"@), #[trigger] header_value_ok("websocket"@);
impl HeaderText for String { open spec fn text(&self) -> Seq<char> { self@ } }
/// W10 stand-in for the excised `tokio::spawn(async move { .. })`: the task that awaits the upgrade and then runs
/// the channel handler on the raw connection
#[verifier::external_body]
pub fn spawn_upgrade_task<C>(upgrade_fut: OnUpgrade, ws_log: Logger, handler: C) { unimplemented!() }
#[verifier::external_body]
pub fn body_empty() -> (b: Body) ensures b.bytes@ == Seq::<char>::empty() { unimplemented!() }
impl StatusCode {
    pub const SWITCHING_PROTOCOLS: StatusCode = StatusCode { code: 101 };
}
impl vstd::std_specs::convert::FromSpecImpl<HttpBuildError> for HttpError {
    open spec fn obeys_from_spec() -> bool { false }
    uninterp spec fn from_spec(e: HttpBuildError) -> Self;
}
pub struct WebsocketConnection { pub _p: u8 }
pub trait Future { type Output; }
pub type WebsocketChannelResult = Result<(), String>;

/// A11: a str is determined by its characters
pub broadcast axiom fn ax_str_ext_b(a: &str, b: &str)
    ensures #[trigger] a@ == #[trigger] b@ ==> a == b;
