//@ ret r
//@ contract
        ensures
            // "A request lacking any of these elements receives a 400-level error and is not upgraded"
            (r is Ok) == is_upgrade_request(request.headers), // @upgraded_iff_all_four_handshake_elements_are_present
            r is Err ==> is_client_code(status_of(r->Err_0)), // @refused_with_a_400_level_error
            // the accept value prepared for the 101 response is the digest of THIS request's key
            r is Ok ==> r->Ok_0.0 is Some && r->Ok_0.0->Some_0.accept_key@ == accept_of(request_key(request.headers)), // @accept_key_is_derived_from_the_requests_key
//@ body_start
        broadcast use ax_str_ext_b;
//@ closure 0
|hv: &HeaderValue| -> (o: Option<&str>) ensures (o is Some) == hv_is_text(*hv), o is Some ==> o->Some_0@ == hv_view(*hv)
//@ closure 1
|hv: &str| -> (b: bool) ensures b == has_token(hv, "upgrade"@)
proof { assert(pieces_by(hv, list_separators()) == pieces_by(hv, list_separators())); }
//@ closure 2
|c: char| -> (b: bool) ensures b == list_separators().contains(c)
//@ closure 3
|vs: &str| -> (b: bool) ensures b == (ascii_lower(vs@) == ascii_lower("upgrade"@))
//@ closure 4
|v: &HeaderValue| -> (o: Option<&str>) ensures (o is Some) == hv_is_text(*v), o is Some ==> o->Some_0@ == hv_view(*v)
//@ closure 5
|v: &str| -> (b: bool) ensures b == has_token(v, "websocket"@)
proof { assert(pieces_by(v, list_separators()) == pieces_by(v, list_separators())); }
//@ closure 6
|c: char| -> (b: bool) ensures b == list_separators().contains(c)
//@ closure 7
|v: &str| -> (b: bool) ensures b == (ascii_lower(v@) == ascii_lower("websocket"@))
//@ closure 8
|hv: &HeaderValue| -> (k: &[u8]) ensures k@ == hv_bytes(*hv)
//@ closure 9
|key: &[u8]| -> (a: String) ensures a@ == accept_of(key@)
//@ closure 10
|| -> (h: HttpError) ensures status_of(h) == 400
