//@ ret r
//@ contract
        ensures
            // "answers ... with 101 Switching Protocols whose Sec-WebSocket-Accept is the RFC 6455 digest of that key"
            (self.0 is Some && header_value_ok(self.0->Some_0.accept_key@)) ==> r is Ok && r->Ok_0.status.code == 101
                && hm_view(r->Ok_0.hdrs) == seq![("connection"@, "Upgrade"@), ("upgrade"@, "websocket"@), ("sec-websocket-accept"@, self.0->Some_0.accept_key@)]
                && r->Ok_0.body.bytes@ == Seq::<char>::empty(), // @switching_protocols_with_the_prepared_accept_key
            self.0 is None ==> r is Err, // @handling_twice_is_an_error
//@ body_start
        broadcast use ax_accept_key_is_header_value, ax_upgrade_constants_ok;
//@ closure 0
|e: HttpBuildError| -> (h: HttpError)
