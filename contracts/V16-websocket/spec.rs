// ---- CHECKED: the handshake, from the statement of C20 ----
/// "all spellings of the Connection/Upgrade header lists (case, ordering, extra tokens, whitespace)": the header
/// value, cut at commas and spaces, has SOME item that equals the token ignoring ASCII case
pub open spec fn has_token<'a>(list: &'a str, token: Seq<char>) -> bool {
    exists|i: int| 0 <= i < pieces_by(list, list_separators()).len() && ascii_lower((#[trigger] pieces_by(list, list_separators())[i])@) == ascii_lower(token)
}
/// "a request that carries Connection: upgrade, Upgrade: websocket, version 13 and a key"
pub open spec fn is_upgrade_request(h: HeaderMap) -> bool {
    &&& hm_get(h, "connection"@) is Some && hv_is_text(hm_get(h, "connection"@)->Some_0) && text_has_token(hv_view(hm_get(h, "connection"@)->Some_0), "upgrade"@)
    &&& hm_get(h, "upgrade"@) is Some && hv_is_text(hm_get(h, "upgrade"@)->Some_0) && text_has_token(hv_view(hm_get(h, "upgrade"@)->Some_0), "websocket"@)
    &&& hm_get(h, "sec-websocket-version"@) is Some && hv_bytes(hm_get(h, "sec-websocket-version"@)->Some_0) == ascii_bytes("13"@)
    &&& hm_get(h, "sec-websocket-key"@) is Some
}
/// the same, for a header value given by its text (a &str is determined by its characters: A11)
pub open spec fn text_has_token(text: Seq<char>, token: Seq<char>) -> bool {
    exists|s: &str| s@ == text && has_token(s, token)
}
pub open spec fn request_key(h: HeaderMap) -> Seq<u8> { hv_bytes(hm_get(h, "sec-websocket-key"@)->Some_0) }

/// C20, first sentence, over the two contracts: a request with all four handshake elements is answered 101 with
/// Connection: Upgrade, Upgrade: websocket and Sec-WebSocket-Accept = the digest of ITS key, and an empty body
pub proof fn handshake_end_to_end(h: HeaderMap, up: WebsocketUpgrade, rsp: WebsocketEndpointResult)
    requires
        is_upgrade_request(h),
        // postcondition of from_request on that request
        up.0 is Some && up.0->Some_0.accept_key@ == accept_of(request_key(h)),
        // postcondition of handle on its result
        (up.0 is Some && header_value_ok(up.0->Some_0.accept_key@)) ==> rsp is Ok && rsp->Ok_0.status.code == 101
            && hm_view(rsp->Ok_0.hdrs) == seq![("connection"@, "Upgrade"@), ("upgrade"@, "websocket"@), ("sec-websocket-accept"@, up.0->Some_0.accept_key@)]
            && rsp->Ok_0.body.bytes@ == Seq::<char>::empty(),
    ensures
        rsp is Ok && rsp->Ok_0.status.code == 101, // @a_complete_handshake_is_answered_101
        hm_view(rsp->Ok_0.hdrs)[2] == ("sec-websocket-accept"@, accept_of(request_key(h))), // @accept_is_the_digest_of_the_requests_key
{
    broadcast use ax_accept_key_is_header_value;
}

proof fn sentinel_v16_prelude_consistent()
    ensures false
{
    broadcast use ax_accept_key_is_header_value, ax_upgrade_constants_ok, ax_constant_header_values_ok;
}
proof fn sentinel_not_every_request_is_an_upgrade(h: HeaderMap)
    ensures is_upgrade_request(h)
{}
