//@ ret r
//@ contract
        ensures
            r.method == req_method(*request), r.uri == req_uri(*request), r.version == req_version(*request),
            r.headers == req_headers(*request), r.remote_addr == remote_addr, // @request_info_is_this_requests_method_uri_version_headers_and_peer
