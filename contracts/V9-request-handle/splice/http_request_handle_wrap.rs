//@ ret r
//@ contract
    ensures
        r is Ok, // @every_request_gets_a_response
        // C13: success or error, the response carries x-request-id (its last header), with the id that was
        // generated for this request and handed to http_request_handle / HandlerError::into_response
        exists|id: Seq<char>| #[trigger] header_value_ok(id) && stamped(r->Ok_0, id), // @response_carries_this_requests_id
//@ closure 0
|_g: ()|
//@ before "Ok(response)" 1
    proof {
        // the id stamped on the response (success or error) is the one generated at the top of this
        // function and handed to http_request_handle -- not merely "some" id
        assert(stamped(response, request_id@)); // @stamped_with_the_id_given_to_the_handler
    }
