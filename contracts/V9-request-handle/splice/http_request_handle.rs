//@ ret r
//@ contract
    requires
        header_value_ok(request_id@),   // request ids are uuids (generate_request_id); assumed legal header values
    ensures
        // C05/C10/C04: a version-policy error or a failed route lookup is returned as such -- and (precondition
        // of run_handler_to_completion, proved at its call site) no handler runs in either case
        ({ let ver = policy_version(server.version_policy, wrapped(request));
           &&& ver is Err ==> r == Err::<Response, HandlerError>(HandlerError::Dropshot(ver->Err_0))
           &&& ver is Ok ==> ({
                 let route = route_of(server.router, req_method(wrapped(request)), uri_path(req_uri(wrapped(request))), ver->Ok_0);
                 route is Err ==> r == Err::<Response, HandlerError>(HandlerError::Dropshot(route->Err_0)) }) }), // @policy_and_routing_errors_returned_unchanged_no_handler
        // once the version and the route are found, the outcome IS the handler's: its error unchanged, its response with
        // the request id stamped on -- never an error of the glue's own making
        ({ let ver = policy_version(server.version_policy, wrapped(request));
           ver is Ok && route_of(server.router, req_method(wrapped(request)), uri_path(req_uri(wrapped(request))), ver->Ok_0) is Ok ==>
             exists|rq: RequestContext<C>| #![trigger dispatch_outcome(route_of(server.router, req_method(wrapped(request)), uri_path(req_uri(wrapped(request))), ver->Ok_0)->Ok_0.handler, rq, wrapped(request))]
                ({ let out = dispatch_outcome(route_of(server.router, req_method(wrapped(request)), uri_path(req_uri(wrapped(request))), ver->Ok_0)->Ok_0.handler, rq, wrapped(request));
                   &&& handler_may_run(route_of(server.router, req_method(wrapped(request)), uri_path(req_uri(wrapped(request))), ver->Ok_0)->Ok_0.handler, rq, wrapped(request), remote_addr)
                   &&& (r is Ok) == (out is Ok)
                   &&& out is Err ==> r == Err::<Response, HandlerError>(out->Err_0) }) }), // @the_handlers_outcome_is_what_comes_back
        // C13: "Every response ... carries an x-request-id header ... equal ... to the request id the handler was given"
        r is Ok ==> exists|h: Response| #[trigger] produced_by_handler(h)
            && r->Ok_0.status == h.status && r->Ok_0.body == h.body
            && hm_view(r->Ok_0.hdrs) == hm_without(hm_view(h.hdrs), "x-request-id"@).push(("x-request-id"@, request_id@)), // @success_response_is_the_handlers_plus_exactly_this_request_id
//@ body_start
    broadcast use ax_input_path_is_the_string;
    let ghost remote_addr0 = remote_addr;
//@ before "let mut response" 0
        proof {
            // the handler is handed THIS request's id and THIS route's endpoint metadata
            assert(rqctx.request_id@ == request_id@); // @handler_is_given_this_request_id
        }
