// ---- CHECKED ----
/// the response's last header is x-request-id with this id
pub open spec fn stamped(rsp: Response, id: Seq<char>) -> bool {
    hm_view(rsp.hdrs).len() > 0 && hm_view(rsp.hdrs).last() == ("x-request-id"@, id)
}
proof fn sentinel_v9_prelude_consistent()
    ensures false
{
    ax_known_reasons();
    broadcast use ax_constant_header_values_ok, ax_input_path_is_the_string;
}
proof fn sentinel_handler_may_run_not_trivial<C: ServerContext>(handler: Arc<dyn RouteHandler<C>>, rqctx: RequestContext<C>, request: Request<Body>, a: SocketAddr)
    ensures handler_may_run(handler, rqctx, request, a)
{}
