use vstd::prelude::*;
use std::num::NonZeroU32;
use std::sync::Arc;
//@ items
//@ include ../_common/prelude_http.rs
//@ include ../_common/prelude_error.rs
//@ include ../_common/prelude_response.rs
pub trait ServerContext {}
pub struct Opaque<T> { pub _p: core::marker::PhantomData<T> }

// ---- TRUSTED: the pieces http_request_handle calls, as opaque operations with uninterpreted results ----
#[verifier::external_body]
pub struct Logger { _p: u8 }
#[verifier::external_body]
pub struct SocketAddr { _p: u8 }
#[verifier::external_body]
pub struct Incoming { _p: u8 }
#[verifier::external_body]
pub struct Method { _p: u8 }
#[verifier::external_body]
pub struct Uri { _p: u8 }
#[verifier::external_body]
pub struct Version { _p: u8 }
#[verifier::external_body]
#[derive(Clone, Copy)]
pub struct HttpVersion { _p: u8 }
#[verifier::external_body]
pub struct InputPath<'a> { _p: &'a u8 }
#[verifier::external_body]
#[verifier::accept_recursive_types(B)]
pub struct Request<B> { _p: core::marker::PhantomData<B> }
pub uninterp spec fn req_method<B>(r: Request<B>) -> Method;
pub uninterp spec fn req_uri<B>(r: Request<B>) -> Uri;
pub uninterp spec fn uri_path(u: Uri) -> Seq<char>;
pub uninterp spec fn input_path_text(p: InputPath<'_>) -> Seq<char>;
impl<B> Request<B> {
    #[verifier::external_body]
    pub fn method(&self) -> (r: &Method) ensures *r == req_method(*self) { unimplemented!() }
    #[verifier::external_body]
    pub fn uri(&self) -> (r: &Uri) ensures *r == req_uri(*self) { unimplemented!() }
}
impl Uri {
    #[verifier::external_body]
    pub fn path(&self) -> (r: &str) ensures r@ == uri_path(*self) { unimplemented!() }
}
impl<'a> From<&'a str> for InputPath<'a> {
    #[verifier::external_body]
    fn from(s: &'a str) -> (r: InputPath<'a>) ensures input_path_text(r) == s@ { unimplemented!() }
}
impl<'a> vstd::std_specs::convert::FromSpecImpl<&'a str> for InputPath<'a> {
    open spec fn obeys_from_spec() -> bool { true }
    uninterp spec fn from_spec(v: &'a str) -> Self;
}
/// `From<&str> for InputPath` only wraps the string
pub broadcast axiom fn ax_input_path_is_the_string<'a>(s: &'a str)
    ensures input_path_text(#[trigger] <InputPath<'a> as vstd::std_specs::convert::FromSpec<&'a str>>::from_spec(s)) == s@;
/// `request.map(crate::Body::wrap)`: same request, body wrapped
pub uninterp spec fn wrapped<B>(r: Request<B>) -> Request<Body>;
#[verifier::external_body]
pub fn request_wrap_body(r: Request<Incoming>) -> (w: Request<Body>) ensures w == wrapped(r) { unimplemented!() }
pub uninterp spec fn req_version<B>(r: Request<B>) -> HttpVersion;
pub uninterp spec fn req_headers<B>(r: Request<B>) -> HeaderMap;
impl<B> Request<B> {
    #[verifier::external_body]
    pub fn version(&self) -> (r: HttpVersion) ensures r == req_version(*self) { unimplemented!() }
    #[verifier::external_body]
    pub fn headers(&self) -> (r: &HeaderMap) ensures *r == req_headers(*self) { unimplemented!() }
}
/// Clone of the http types: the copy equals the original
impl Clone for Method { #[verifier::external_body] fn clone(&self) -> (r: Method) ensures r == *self { unimplemented!() } }
impl Clone for Uri { #[verifier::external_body] fn clone(&self) -> (r: Uri) ensures r == *self { unimplemented!() } }
impl Clone for HeaderMap { #[verifier::external_body] fn clone(&self) -> (r: HeaderMap) ensures r == *self { unimplemented!() } }

/// versioning.rs: VersionPolicy::request_version (under contract in unit V3)
#[verifier::external_body]
pub struct VersionPolicy { _p: u8 }
pub uninterp spec fn policy_version(p: VersionPolicy, r: Request<Body>) -> Result<Option<Version>, HttpError>;
impl VersionPolicy {
    #[verifier::external_body]
    pub fn request_version(&self, request: &Request<Body>, request_log: &Logger) -> (r: Result<Option<Version>, HttpError>)
        ensures r == policy_version(*self, *request) { unimplemented!() }
}
/// router.rs: HttpRouter::lookup_route (out of reach of both verifiers, DESIGN section 5)
pub trait RouteHandler<Context: ServerContext> {}
#[verifier::external_body]
#[verifier::accept_recursive_types(Context)]
pub struct HttpRouter<Context: ServerContext> { _p: core::marker::PhantomData<Context> }
pub uninterp spec fn route_of<C: ServerContext>(router: HttpRouter<C>, m: Method, path: Seq<char>, v: Option<Version>) -> Result<RouterLookupResult<C>, HttpError>;
impl<Context: ServerContext> HttpRouter<Context> {
    #[verifier::external_body]
    pub fn lookup_route(&self, method: &Method, path: InputPath<'_>, version: Option<&Version>) -> (r: Result<RouterLookupResult<Context>, HttpError>)
        ensures r == route_of(*self, *method, input_path_text(path), match version { Some(v) => Some(*v), None => None }) { unimplemented!() }
}

//@ include ../_common/prelude_handler_error.rs

/// W10 stand-in for the excised `match server.config.default_handler_task_mode { .. }`.
/// Its PRECONDITION is the obligation "whenever a handler is invoked, ...": it is proved at the single call
/// site in http_request_handle.  Its postcondition only marks the response as the handler's.
pub uninterp spec fn produced_by_handler(r: Response) -> bool;
/// C09: "each handler invocation sees only its own request's data, including the method, URI, headers and peer
/// address exposed in its request context"
pub open spec fn shows_this_request(info: RequestInfo, request: Request<Body>, remote_addr: SocketAddr) -> bool {
    &&& info.method == req_method(request)
    &&& info.uri == req_uri(request)
    &&& info.version == req_version(request)
    &&& info.headers == req_headers(request)
    &&& info.remote_addr == remote_addr
}
pub open spec fn handler_may_run<C: ServerContext>(handler: Arc<dyn RouteHandler<C>>, rqctx: RequestContext<C>, request: Request<Body>, remote_addr: SocketAddr) -> bool {
    let st = *rqctx.server;
    let ver = policy_version(st.version_policy, request);
    &&& shows_this_request(rqctx.request, request, remote_addr)
    &&& ver is Ok
    &&& ({ let route = route_of(st.router, req_method(request), uri_path(req_uri(request)), ver->Ok_0);
           &&& route is Ok
           &&& handler == route->Ok_0.handler
           &&& rqctx.endpoint == route->Ok_0.endpoint })
}
/// what running this handler on this request context and request yields (the excised task-mode dispatch, W10)
pub uninterp spec fn dispatch_outcome<C: ServerContext>(handler: Arc<dyn RouteHandler<C>>, rqctx: RequestContext<C>, request: Request<Body>) -> Result<Response, HandlerError>;
#[verifier::external_body]
pub fn run_handler_to_completion<C: ServerContext>(handler: Arc<dyn RouteHandler<C>>, rqctx: RequestContext<C>, request: Request<Body>, Ghost(remote_addr): Ghost<SocketAddr>) -> (r: Result<Response, HandlerError>)
    requires handler_may_run(handler, rqctx, request, remote_addr)
    ensures r == dispatch_outcome(handler, rqctx, request), r is Ok ==> produced_by_handler(r->Ok_0)
{ unimplemented!() }

// ---- for http_request_handle_wrap ----
#[verifier::external_body]
pub struct GenericError { _p: u8 }
#[verifier::external_body]
pub struct Instant { _p: u8 }
#[verifier::external_body]
pub struct Duration { _p: u8 }
#[verifier::external_body]
pub fn instant_now() -> Instant { unimplemented!() }
impl Instant {
    #[verifier::external_body]
    pub fn elapsed(&self) -> Duration { unimplemented!() }
}
impl Duration {
    #[verifier::external_body]
    pub fn as_micros(&self) -> u128 { unimplemented!() }
}
impl Logger {
    /// slog::Logger::new(o!(..)) with the key/value macro dropped (W6)
    #[verifier::external_body]
    pub fn new(&self, _kv: ()) -> Logger { unimplemented!() }
}
/// scopeguard::guard / ScopeGuard::into_inner: the closure runs only if the guard is dropped un-defused
/// (client disconnect); it is never run on the paths verified here
#[verifier::external_body]
#[verifier::reject_recursive_types(T)]
#[verifier::reject_recursive_types(F)]
pub struct ScopeGuard<T, F> { _p: core::marker::PhantomData<(T, F)> }
#[verifier::external_body]
pub fn guard<T, F: FnOnce(T)>(v: T, f: F) -> ScopeGuard<T, F> { unimplemented!() }
impl<T, F: FnOnce(T)> ScopeGuard<T, F> {
    #[verifier::external_body]
    pub fn into_inner(g: ScopeGuard<T, F>) -> T { unimplemented!() }
}
/// A10: request ids are uuid v4 strings, which are legal header values
#[verifier::external_body]
pub fn generate_request_id() -> (r: String) ensures header_value_ok(r@) { unimplemented!() }
