//@ ret r
