//@ ret r
//@ contract
        ensures Self::excl_rel(*rqctx, request, r)
