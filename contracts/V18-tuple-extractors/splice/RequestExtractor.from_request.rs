//@ ret r
//@ contract
        ensures Self::req_rel(*rqctx, request, r)
