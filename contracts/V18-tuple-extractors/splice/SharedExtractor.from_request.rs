//@ ret r
//@ contract
        ensures Self::shared_rel(*rqctx, r)
