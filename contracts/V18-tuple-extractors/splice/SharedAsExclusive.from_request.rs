//@ ret r
