//@ ret r
