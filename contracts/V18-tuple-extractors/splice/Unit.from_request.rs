//@ ret r
