//@ ret r
