// ---- CHECKED: extraction of a handler's argument tuple, from C10 ("the handler is never invoked") ----
/// every argument extracted: the tuple of the values; otherwise the request fails with an error that one of the
/// extractors returned (so: a 4xx whenever the extractors' own errors are 4xx)
pub open spec fn all_or_first_error1<X>(rx: Result<X, HttpError>, r: Result<(X,), HttpError>) -> bool {
    match rx { Ok(x) => r == Ok::<(X,), HttpError>((x,)), Err(e) => r == Err::<(X,), HttpError>(e) }
}
pub open spec fn all_or_some_error2<A, X>(r1: Result<A, HttpError>, rx: Result<X, HttpError>, r: Result<(A, X), HttpError>) -> bool {
    if r1 is Ok && rx is Ok { r == Ok::<(A, X), HttpError>((r1->Ok_0, rx->Ok_0)) }
    else { r is Err && ((r1 is Err && r->Err_0 == r1->Err_0) || (rx is Err && r->Err_0 == rx->Err_0)) }
}
pub open spec fn all_or_some_error3<A, B, X>(r1: Result<A, HttpError>, r2: Result<B, HttpError>, rx: Result<X, HttpError>, r: Result<(A, B, X), HttpError>) -> bool {
    if r1 is Ok && r2 is Ok && rx is Ok { r == Ok::<(A, B, X), HttpError>((r1->Ok_0, r2->Ok_0, rx->Ok_0)) }
    else { r is Err && ((r1 is Err && r->Err_0 == r1->Err_0) || (r2 is Err && r->Err_0 == r2->Err_0) || (rx is Err && r->Err_0 == rx->Err_0)) }
}

/// C10 for argument tuples: if each extractor refuses only with 400-level errors, so does the tuple -- and it yields
/// arguments only if EVERY extractor succeeded
pub proof fn tuple_extraction_refuses_with_a_components_error<S1: SharedExtractor, S2: SharedExtractor, X: ExclusiveExtractor, C: ServerContext>(
    rqctx: RequestContext<C>, request: Request, r: Result<(S1, S2, X), HttpError>)
    requires
        <(S1, S2, X) as RequestExtractor>::req_rel(rqctx, request, r),
        forall|r1: Result<S1, HttpError>| #[trigger] S1::shared_rel(rqctx, r1) && r1 is Err ==> is_client_code(status_of(r1->Err_0)),
        forall|r2: Result<S2, HttpError>| #[trigger] S2::shared_rel(rqctx, r2) && r2 is Err ==> is_client_code(status_of(r2->Err_0)),
        forall|rx: Result<X, HttpError>| #[trigger] X::excl_rel(rqctx, request, rx) && rx is Err ==> is_client_code(status_of(rx->Err_0)),
    ensures
        r is Err ==> is_client_code(status_of(r->Err_0)), // @a_failed_argument_fails_the_request_with_that_extractors_4xx
{}

proof fn sentinel_v18_prelude_consistent()
    ensures false
{
    ax_known_reasons();
}
proof fn sentinel_join_not_trivial<A, X>(r1: Result<A, HttpError>, rx: Result<X, HttpError>, r: Result<(A, X), HttpError>)
    ensures all_or_some_error2(r1, rx, r)
{}
