use vstd::prelude::*;
use vstd::std_specs::cmp::*;
use std::marker::PhantomData;
//@ items
//@ include ../_common/prelude_http.rs
//@ include ../_common/prelude_error.rs
pub struct HttpErrorResponseBody { pub request_id: String, pub error_code: Option<String>, pub message: String }

// ---- TRUSTED (V18) ----
pub trait ServerContext {}
#[verifier::external_body]
#[verifier::accept_recursive_types(Context)]
pub struct RequestContext<Context> { _p: PhantomData<Context> }
#[verifier::external_body]
pub struct Request { _p: u8 }
/// futures::try_join!(a, b[, c]) with every future awaited to completion (rule W7): all Ok -> the tuple of the values;
/// otherwise an error that one of the operands returned
#[verifier::external_body]
pub fn try_join2<A, B, E>(a: Result<A, E>, b: Result<B, E>) -> (r: Result<(A, B), E>)
    ensures
        (a is Ok && b is Ok) ==> r == Ok::<(A, B), E>((a->Ok_0, b->Ok_0)),
        !(a is Ok && b is Ok) ==> r is Err && ((a is Err && r->Err_0 == a->Err_0) || (b is Err && r->Err_0 == b->Err_0)),
{ unimplemented!() }
#[verifier::external_body]
pub fn try_join3<A, B, C, E>(a: Result<A, E>, b: Result<B, E>, c: Result<C, E>) -> (r: Result<(A, B, C), E>)
    ensures
        (a is Ok && b is Ok && c is Ok) ==> r == Ok::<(A, B, C), E>((a->Ok_0, b->Ok_0, c->Ok_0)),
        !(a is Ok && b is Ok && c is Ok) ==> r is Err && ((a is Err && r->Err_0 == a->Err_0) || (b is Err && r->Err_0 == b->Err_0) || (c is Err && r->Err_0 == c->Err_0)),
{ unimplemented!() }
