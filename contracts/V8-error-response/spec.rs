// ---- CHECKED: lemmas and sentinels for V8 ----

/// C13 "The internal message of an error is never sent to the client": the response `into_response`
/// produces is a function of (status, error_code, external_message, headers, request id) alone --
/// two errors that differ only in `internal_message` produce the same response.  This is immediate
/// from the contract of `into_response`, whose right-hand sides do not mention `internal_message`;
/// stated as a lemma so that weakening the contract breaks it.
pub open spec fn response_view(e: HttpError, rid: Seq<char>) -> (u16, Seq<char>, Seq<(Seq<char>, Seq<char>)>) {
    (e.status_code.0.code,
     json_pretty(rid, optv(e.error_code), e.external_message@),
     (match e.headers { Some(h) => hm_view(*h), None => Seq::<(Seq<char>, Seq<char>)>::empty() })
        .push(("content-type"@, "application/json"@)).push(("x-request-id"@, rid)))
}
proof fn internal_message_never_sent(e1: HttpError, e2: HttpError, rid: Seq<char>)
    requires
        e1.status_code == e2.status_code, e1.error_code == e2.error_code,
        e1.external_message == e2.external_message, e1.headers == e2.headers,
    ensures response_view(e1, rid) == response_view(e2, rid) // @independent_of_internal_message
{}

/// dropshot's own HttpError converts to the `Dropshot` variant unchanged (its to_response returns Err(self)),
/// so its internal and external messages stay available for logging and HttpError::into_response builds the reply
pub proof fn http_error_converts_to_dropshot_variant(e: HttpError, s: StatusCode, f: bool, h: Seq<(Seq<char>, Seq<char>)>, r: HttpHandlerResult)
    ensures e.to_response_rel(s, f, h, r) == (r == Err::<Response, HttpError>(e)) // @http_error_is_passed_through_structurally
{}

proof fn sentinel_prelude_consistent()
    ensures false
{
    ax_known_reasons();
    broadcast use ax_constant_header_values_ok;
}
proof fn sentinel_header_value_ok_not_trivial(s: Seq<char>)
    ensures header_value_ok(s)
{
    broadcast use ax_constant_header_values_ok;
}
