use vstd::prelude::*;
//@ items
//@ include ../_common/prelude_http.rs
//@ include ../_common/prelude_error.rs
//@ include ../_common/prelude_response.rs
//@ include ../_common/prelude_handler_error.rs
