use vstd::prelude::*;
use vstd::std_specs::cmp::*;
use std::cmp::min;
use std::num::NonZeroU32;
use std::collections::BTreeMap;
use std::sync::Arc;
//@ items
//@ include ../_common/prelude_http.rs
//@ include ../_common/prelude_error.rs

// ---- TRUSTED: stand-ins for serde / serde_json / base64 (assumption A2) ----
// The codecs are uninterpreted; all that is assumed is that each decoder inverts its encoder on the
// encoder's own output.  Nothing is assumed about which inputs fail to decode.
pub trait Serialize {}
pub trait DeserializeOwned {}
pub trait ServerContext {}
pub struct Opaque<T> { pub _p: core::marker::PhantomData<T> }

pub uninterp spec fn json_of<T>(x: T) -> Option<Seq<u8>>;          // serde_json::to_vec
pub uninterp spec fn json_parse<T>(b: Seq<u8>) -> Option<T>;       // serde_json::from_slice
pub uninterp spec fn b64(b: Seq<u8>) -> Seq<char>;                 // URL_SAFE.encode (as the chars of the String)
pub uninterp spec fn b64_dec(s: Seq<u8>) -> Option<Seq<u8>>;       // URL_SAFE.decode (on the utf-8 bytes of the str)
pub uninterp spec fn utf8_len(s: Seq<char>) -> nat;                // str::len: byte length of the utf-8 encoding
pub uninterp spec fn utf8_bytes(s: Seq<char>) -> Seq<u8>;          // str::as_bytes
pub broadcast axiom fn ax_json_round_trip<T>(x: T)
    ensures json_of(x) is Some ==> #[trigger] json_parse::<T>(json_of(x)->Some_0) == Some(x);
pub broadcast axiom fn ax_b64_round_trip(b: Seq<u8>)
    ensures #[trigger] b64_dec(utf8_bytes(b64(b))) == Some(b);

// str::len / String::len / str::as_bytes: byte length and bytes of the utf-8 encoding.  (vstd ships its
// own contracts for these that this Verus build does not let the proof use; the two functions that
// compare a token's length call them through this stand-in trait instead: W1 `.len()` -> `.blen()`,
// `.as_bytes()` -> `.bbytes()` in serialize_page_token / deserialize_page_token only.)
pub trait ByteLen {
    spec fn byte_len(&self) -> nat;
    fn blen(&self) -> (r: usize) ensures r as nat == self.byte_len();
}
impl ByteLen for str {
    open spec fn byte_len(&self) -> nat { utf8_len(self@) }
    #[verifier::external_body]
    fn blen(&self) -> (r: usize) { self.len() }
}
impl ByteLen for String {
    open spec fn byte_len(&self) -> nat { utf8_len(self@) }
    #[verifier::external_body]
    fn blen(&self) -> (r: usize) { self.len() }
}
/// (so that a length test moved onto the decoded bytes is decided, not refused)
impl ByteLen for Vec<u8> {
    open spec fn byte_len(&self) -> nat { self@.len() }
    #[verifier::external_body]
    fn blen(&self) -> (r: usize) { self.len() }
}
#[verifier::external_body]
pub fn str_bytes(s: &str) -> (r: &[u8]) ensures r@ == utf8_bytes(s@) { s.as_bytes() }

#[verifier::external_body]
pub struct SerdeErr { _p: u8 }
#[verifier::external_body]
pub struct B64Err { _p: u8 }
#[verifier::external_body]
pub fn to_vec<T>(x: &T) -> (r: Result<Vec<u8>, SerdeErr>)
    ensures (r is Ok) == (json_of(*x) is Some), r is Ok ==> r->Ok_0@ == json_of(*x)->Some_0 { unimplemented!() }
#[verifier::external_body]
pub fn from_slice<T>(b: &[u8]) -> (r: Result<T, SerdeErr>)
    ensures (r is Ok) == (json_parse::<T>(b@) is Some), r is Ok ==> r->Ok_0 == json_parse::<T>(b@)->Some_0 { unimplemented!() }
#[verifier::external_body]
pub fn url_safe_encode(b: Vec<u8>) -> (r: String) ensures r@ == b64(b@) { unimplemented!() }
/// STANDARD.encode: the other base64 alphabet ('+', '/'): a different function of the bytes, about which nothing is
/// assumed -- in particular not that URL_SAFE.decode undoes it
pub uninterp spec fn b64_std(b: Seq<u8>) -> Seq<char>;
pub uninterp spec fn b64_std_dec(s: Seq<u8>) -> Option<Seq<u8>>;
#[verifier::external_body]
pub fn standard_decode(s: &[u8]) -> (r: Result<Vec<u8>, B64Err>)
    ensures (r is Ok) == (b64_std_dec(s@) is Some), r is Ok ==> r->Ok_0@ == b64_std_dec(s@)->Some_0 { unimplemented!() }
#[verifier::external_body]
pub fn standard_encode(b: Vec<u8>) -> (r: String) ensures r@ == b64_std(b@) { unimplemented!() }
#[verifier::external_body]
pub fn url_safe_decode(s: &[u8]) -> (r: Result<Vec<u8>, B64Err>)
    ensures (r is Ok) == (b64_dec(s@) is Some), r is Ok ==> r->Ok_0@ == b64_dec(s@)->Some_0 { unimplemented!() }

// serde::Deserializer / from_map / de::Error::custom for deserialize_whichpage
pub trait Deserializer<'de>: Sized { type Error; }
pub uninterp spec fn string_map_of<D>(d: D) -> Option<Map<String, String>>;
#[verifier::external_body]
pub fn deserialize_string_map<'de, D: Deserializer<'de>>(d: D) -> (r: Result<BTreeMap<String, String>, D::Error>)
    ensures (r is Ok) == (string_map_of(d) is Some), r is Ok ==> r->Ok_0@ == string_map_of(d)->Some_0 { unimplemented!() }
pub uninterp spec fn from_map_spec<T>(m: Map<String, String>) -> Option<T>;
#[verifier::external_body]
pub fn from_map<T: DeserializeOwned>(m: &BTreeMap<String, String>) -> (r: Result<T, String>)
    ensures (r is Ok) == (from_map_spec::<T>(m@) is Some), r is Ok ==> r->Ok_0 == from_map_spec::<T>(m@)->Some_0 { unimplemented!() }
#[verifier::external_body]
pub fn de_error_custom<E>(msg: String) -> (r: E) { unimplemented!() }

// std::cmp::min (assumption A3)
pub uninterp spec fn min_spec<T>(a: T, b: T) -> T;
pub assume_specification<T: core::cmp::Ord>[std::cmp::min](a: T, b: T) -> (r: T)
    ensures r == min_spec(a, b);
pub broadcast axiom fn ax_min_nonzero_u32(a: NonZeroU32, b: NonZeroU32)
    ensures (#[trigger] min_spec(a, b))@ == (if a@ <= b@ { a@ } else { b@ });
pub assume_specification<T, E>[Option::<Result<T, E>>::transpose](o: Option<Result<T, E>>) -> (r: Result<Option<T>, E>)
    ensures r == (match o { None => Ok(None), Some(Ok(t)) => Ok(Some(t)), Some(Err(e)) => Err(e) });
// BTreeMap<String, _>::get(&str): vstd states its contract through uninterpreted "borrowed key"
// predicates and gives axioms only for K == Q; for K = String, Q = str the three facts below are
// assumed (String's Ord is a lawful total order; looking up a &str finds the entry whose String key
// has the same characters).
pub open spec fn map_has<V>(m: Map<String, V>, key: Seq<char>) -> bool { exists|k: String| #![auto] k@ == key && m.contains_key(k) }
pub open spec fn map_at<V>(m: Map<String, V>, key: Seq<char>) -> V { m[choose|k: String| #![auto] k@ == key && m.contains_key(k)] }
pub broadcast axiom fn ax_string_obeys_cmp()
    ensures #[trigger] vstd::laws_cmp::obeys_cmp::<String>();
pub broadcast axiom fn ax_str_key_ordering()
    ensures #[trigger] vstd::std_specs::btree::borrowed_key_ordering_matches::<String, str>();
pub broadcast axiom fn ax_str_key_contains<V>(m: Map<String, V>, k: &str)
    ensures #[trigger] vstd::std_specs::btree::contains_borrowed_key(m, k) == map_has(m, k@);
pub broadcast axiom fn ax_str_key_value<V>(m: Map<String, V>, k: &str, v: V)
    ensures #[trigger] vstd::std_specs::btree::maps_borrowed_key_to_value(m, k, v) == (map_has(m, k@) && map_at(m, k@) == v);

// #[derive(PartialEq)] on PaginationVersion compares structurally (meaning of the compiler's derive)
impl PartialEqSpecImpl for PaginationVersion {
    open spec fn obeys_eq_spec() -> bool { true }
    open spec fn eq_spec(&self, other: &Self) -> bool { *self == *other }
}

/// Result::unwrap_or (no vstd contract)
pub assume_specification<T, E>[ Result::<T, E>::unwrap_or ](r: Result<T, E>, default: T) -> (v: T)
    ensures v == (match r { Ok(x) => x, Err(_) => default });
