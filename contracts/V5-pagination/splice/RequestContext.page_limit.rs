//@ ret r
//@ contract
        ensures
            r is Ok, // @never_fails
            pag_params.limit is None ==> r->Ok_0 == self.server.config.page_default_nitems, // @default_when_absent
            pag_params.limit is Some ==> r->Ok_0@ == (if pag_params.limit->Some_0@ <= self.server.config.page_max_nitems@
                { pag_params.limit->Some_0@ } else { self.server.config.page_max_nitems@ }), // @client_limit_capped_at_server_max
//@ body_start
        broadcast use ax_min_nonzero_u32;
//@ closure 0
|limit: NonZeroU32| -> (m: NonZeroU32) ensures m@ == (if limit@ <= server_config.page_max_nitems@ { limit@ } else { server_config.page_max_nitems@ })
