//@ ret r
//@ contract
        requires
            forall|i: &ItemType, s: &ScanParams| call_requires(get_page_selector, (i, s)),
        ensures
            r is Ok ==> r->Ok_0.items == items, // @items_returned_unchanged
            r is Ok ==> (r->Ok_0.next_page is Some) == (items@.len() > 0), // @token_iff_page_nonempty
            r is Ok && items@.len() > 0 ==> exists|sel: PageSelector|
                call_ensures(get_page_selector, (&items@.last(), scan_params), sel)
                && token_of(sel) == Some(r->Ok_0.next_page->Some_0@), // @token_encodes_selector_of_last_item
            r is Err ==> is_error_code(status_of(r->Err_0)), // @failure_is_500
//@ closure 0
|last_item: &ItemType| -> (t: Result<String, HttpError>)
                ensures exists|sel: PageSelector| call_ensures(get_page_selector, (last_item, scan_params), sel)
                    && (t is Ok) == (token_of(sel) is Some) && (t is Ok ==> t->Ok_0@ == token_of(sel)->Some_0)
                    && (t is Err ==> is_error_code(status_of(t->Err_0)))
