//@ ret r
//@ contract
    ensures
        (r is Ok) == (selector_of::<PageSelector>(token_str@) is Some), // @accepts_exactly_wellformed_v1_tokens
        r is Ok ==> r->Ok_0 == selector_of::<PageSelector>(token_str@)->Some_0, // @yields_the_encoded_selector
        utf8_len(token_str@) > MAX_TOKEN_LENGTH as nat ==> r is Err, // @overlong_refused
//@ closure 0
|e: B64Err| -> (m: String)
//@ closure 1
|_e: SerdeErr| -> (m: String)
