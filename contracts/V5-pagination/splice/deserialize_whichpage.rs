//@ ret r
//@ contract
    ensures
        string_map_of(deserializer) is None ==> r is Err, // @undecodable_query_refused
        string_map_of(deserializer) is Some ==> ({
            let raw = string_map_of(deserializer)->Some_0;
            if map_has(raw, "page_token"@) {
                // C14: "When a token is present it alone determines the page and other scan parameters are ignored"
                let sel = selector_of::<PageSelector>(map_at(raw, "page_token"@)@);
                &&& (r is Ok) == (sel is Some)
                &&& r is Ok ==> r->Ok_0 == WhichPage::<ScanParams, PageSelector>::Next(sel->Some_0)
            } else {
                let sp = from_map_spec::<ScanParams>(raw);
                &&& (r is Ok) == (sp is Some)
                &&& r is Ok ==> r->Ok_0 == WhichPage::<ScanParams, PageSelector>::First(sp->Some_0)
            }
        }), // @token_alone_determines_the_page
//@ body_start
    broadcast use ax_string_obeys_cmp, ax_str_key_ordering, ax_str_key_contains, ax_str_key_value;
