//@ ret r
//@ contract
    ensures
        (r is Ok) == (token_of(page_start) is Some), // @issues_exactly_when_representable
        r is Ok ==> r->Ok_0@ == token_of(page_start)->Some_0, // @token_is_b64_of_json_of_v1_selector
        r is Ok ==> utf8_len(r->Ok_0@) <= MAX_TOKEN_LENGTH as nat, // @never_issues_a_token_it_would_refuse
        r is Err ==> is_error_code(status_of(r->Err_0)), // @failure_is_500
//@ closure 0
|e: SerdeErr| -> (h: HttpError) ensures is_error_code(status_of(h))
