// ---- CHECKED: spec functions from the statements of C14 / C15, lemmas ----

/// the token the framework issues for a page selector (None: the selector cannot be serialised)
pub open spec fn token_of<S>(sel: S) -> Option<Seq<char>> {
    match json_of(SerializedToken { v: PaginationVersion::V1, page_start: sel }) {
        Some(j) => if utf8_len(b64(j)) <= MAX_TOKEN_LENGTH as nat { Some(b64(j)) } else { None },
        None => None,
    }
}
/// what presenting a token yields
pub open spec fn selector_of<S>(tok: Seq<char>) -> Option<S> {
    if utf8_len(tok) > MAX_TOKEN_LENGTH as nat { None }
    else { match b64_dec(utf8_bytes(tok)) {
        None => None,
        Some(j) => match json_parse::<SerializedToken<S>>(j) {
            None => None,
            Some(t) => if t.v == PaginationVersion::V1 { Some(t.page_start) } else { None },
        } } }
}

/// C14: "Any page token the framework issues is accepted back and yields the same page selector"
proof fn token_round_trip<S>(sel: S)
    requires token_of(sel) is Some
    ensures selector_of::<S>(token_of(sel)->Some_0) == Some(sel) // @issued_token_accepted_back_same_selector
{
    broadcast use ax_json_round_trip, ax_b64_round_trip;
    let t = SerializedToken { v: PaginationVersion::V1, page_start: sel };
    let j = json_of(t)->Some_0;
    assert(json_parse::<SerializedToken<S>>(j) == Some(t));
    assert(b64_dec(utf8_bytes(b64(j))) == Some(j));
}

// ---------------- C15: the scan lemma over the contracts above ----------------
// A collection is a sequence of items in scan order.  Hypothesis H (the handler's contract, NOT proved
// here): given `after` (how many items precede the page: 0 for the first page, the position after the
// item the selector identifies otherwise) and a limit L >= 1, the handler returns the next min(L, rest)
// items and builds its page with ResultsPage::new, whose selector identifies the last item returned.
// Dropshot's share, proved on the real code: a token is returned iff the page is non-empty and it
// encodes exactly the selector of the last item (ResultsPage::new), presenting it yields that selector
// back (round trip), and the page size is the clamped limit (page_limit).

pub open spec fn page_at<T>(c: Seq<T>, after: int, limit: int) -> Seq<T>
    recommends 0 <= after <= c.len(), limit >= 1
{
    c.subrange(after, if after + limit <= c.len() { after + limit } else { c.len() as int })
}

/// concatenation of the pages obtained by following tokens from position `after`
pub open spec fn scan_from<T>(c: Seq<T>, after: int, limit: int) -> Seq<T>
    recommends 0 <= after <= c.len(), limit >= 1
    decreases c.len() - after
{
    if after < 0 || after >= c.len() || limit < 1 { Seq::empty() }   // empty page => no token => scan ends
    else { page_at(c, after, limit) + scan_from(c, after + page_at(c, after, limit).len(), limit) }
}

/// number of requests the scan makes from position `after` (the last one returns the empty page)
pub open spec fn scan_requests<T>(c: Seq<T>, after: int, limit: int) -> nat
    decreases c.len() - after
{
    if after < 0 || after >= c.len() || limit < 1 { 1 }
    else { 1 + scan_requests(c, after + page_at(c, after, limit).len(), limit) }
}

/// C15: "yields every item exactly once and in order, for every collection size (including empty)
/// and every page size ... No page holds more items than the effective limit ... the scan terminates"
proof fn scan_exactly_once<T>(c: Seq<T>, after: int, limit: int)
    requires 0 <= after <= c.len(), limit >= 1
    ensures
        scan_from(c, after, limit) == c.subrange(after, c.len() as int), // @every_item_exactly_once_in_order
        page_at(c, after, limit).len() <= limit, // @page_never_exceeds_limit
        (page_at(c, after, limit).len() > 0) == (after < c.len()), // @token_iff_nonempty_page
        scan_requests(c, after, limit) <= (c.len() - after) + 1, // @scan_terminates
    decreases c.len() - after
{
    if after < c.len() {
        let p = page_at(c, after, limit);
        assert(p.len() >= 1);
        scan_exactly_once(c, after + p.len(), limit);
        assert(p + c.subrange(after + p.len(), c.len() as int) =~= c.subrange(after, c.len() as int));
    } else {
        assert(c.subrange(after, c.len() as int) =~= Seq::<T>::empty());
    }
}

proof fn sentinel_codec_axioms_consistent()
    ensures false
{
    broadcast use ax_json_round_trip, ax_b64_round_trip, ax_min_nonzero_u32, ax_string_obeys_cmp, ax_str_key_ordering, ax_str_key_contains, ax_str_key_value;
    ax_known_reasons();
}
proof fn sentinel_token_of_not_always_some<S>(sel: S)
    ensures token_of(sel) is Some
{
    broadcast use ax_json_round_trip, ax_b64_round_trip;
}
proof fn sentinel_selector_of_not_always_none<S>(tok: Seq<char>)
    ensures selector_of::<S>(tok) is None
{
    broadcast use ax_json_round_trip, ax_b64_round_trip;
}
