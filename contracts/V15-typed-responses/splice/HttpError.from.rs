//@ ret r
//@ contract
        ensures status_of(r) == 400 // @a_response_that_cannot_be_built_is_a_400
