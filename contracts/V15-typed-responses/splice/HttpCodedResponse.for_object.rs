//@ ret r
//@ contract
        ensures
            // the body is asked for a response with THE STATUS THE TYPE DECLARES, on a fresh builder
            body.to_response_rel(Self::STATUS_CODE, false, Seq::<(Seq<char>, Seq<char>)>::empty(), r), // @response_built_with_the_declared_status
