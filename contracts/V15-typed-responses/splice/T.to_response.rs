//@ ret r
//@ body_start
        broadcast use ax_constant_header_values_ok;
//@ closure 0
|e: SerdeJsonError| -> (h: HttpError) 
