//@ ret r
