//@ ret r
//@ contract
        ensures empty_response(StatusCode { code: 204 }, false, Seq::<(Seq<char>, Seq<char>)>::empty(), r), // @no_content_204_with_an_empty_body
