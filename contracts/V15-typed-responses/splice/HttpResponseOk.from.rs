//@ ret r
//@ contract
        ensures response.0.to_response_rel(StatusCode { code: 200 }, false, Seq::<(Seq<char>, Seq<char>)>::empty(), r), // @declared_status_200_and_the_bodys_own_content
