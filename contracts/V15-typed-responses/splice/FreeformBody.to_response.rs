//@ ret r
//@ body_start
        broadcast use ax_octet_stream_ok;
