use vstd::prelude::*;
use vstd::std_specs::cmp::*;
//@ items
//@ include ../_common/prelude_http.rs
//@ include ../_common/prelude_error.rs
//@ include ../_common/prelude_response.rs
//@ include ../_common/prelude_handler_error.rs

// ---- TRUSTED (V15) ----
/// bounds of the blanket impl: schemars::JsonSchema / serde::Serialize as marker traits (W2)
pub trait JsonSchema {}
pub trait Serialize {}
/// serde_json::to_string: a partial function of the value (None: the value's Serialize impl fails)
pub uninterp spec fn json_of<T>(v: T) -> Option<Seq<char>>;
#[verifier::external_body]
pub fn serde_json_to_string<T: Serialize>(v: &T) -> (r: Result<String, SerdeJsonError>)
    ensures (r is Ok) == (json_of(*v) is Some), r is Ok ==> r->Ok_0@ == json_of(*v)->Some_0
{ unimplemented!() }
/// the other constant content type is a legal header value too
pub broadcast axiom fn ax_octet_stream_ok()
    ensures #[trigger] header_value_ok("application/octet-stream"@);
/// dropshot::Body::empty()
#[verifier::external_body]
pub fn body_empty() -> (b: Body) ensures b.bytes@ == Seq::<char>::empty() { unimplemented!() }
/// http::StatusCode's constants (their numeric values are re-proved on the real crate by Kani unit K4)
impl StatusCode {
    pub const OK: StatusCode = StatusCode { code: 200 };
    pub const CREATED: StatusCode = StatusCode { code: 201 };
    pub const ACCEPTED: StatusCode = StatusCode { code: 202 };
    pub const NO_CONTENT: StatusCode = StatusCode { code: 204 };
}
impl vstd::std_specs::convert::FromSpecImpl<HttpBuildError> for HttpError {
    open spec fn obeys_from_spec() -> bool { false }
    uninterp spec fn from_spec(e: HttpBuildError) -> Self;
}
/// the five `impl From<X> for HttpHandlerResult` do not promise vstd's from_spec equation (their contract is spliced)
impl<T: HttpResponseContent> vstd::std_specs::convert::FromSpecImpl<HttpResponseCreated<T>> for HttpHandlerResult {
    open spec fn obeys_from_spec() -> bool { false }
    uninterp spec fn from_spec(e: HttpResponseCreated<T>) -> Self;
}
impl<T: HttpResponseContent> vstd::std_specs::convert::FromSpecImpl<HttpResponseAccepted<T>> for HttpHandlerResult {
    open spec fn obeys_from_spec() -> bool { false }
    uninterp spec fn from_spec(e: HttpResponseAccepted<T>) -> Self;
}
impl<T: HttpResponseContent> vstd::std_specs::convert::FromSpecImpl<HttpResponseOk<T>> for HttpHandlerResult {
    open spec fn obeys_from_spec() -> bool { false }
    uninterp spec fn from_spec(e: HttpResponseOk<T>) -> Self;
}
impl vstd::std_specs::convert::FromSpecImpl<HttpResponseDeleted> for HttpHandlerResult {
    open spec fn obeys_from_spec() -> bool { false }
    uninterp spec fn from_spec(e: HttpResponseDeleted) -> Self;
}
impl vstd::std_specs::convert::FromSpecImpl<HttpResponseUpdatedNoContent> for HttpHandlerResult {
    open spec fn obeys_from_spec() -> bool { false }
    uninterp spec fn from_spec(e: HttpResponseUpdatedNoContent) -> Self;
}
