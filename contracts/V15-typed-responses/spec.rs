// ---- CHECKED: what a typed response puts on the wire, from the statement of C12 ----

/// "with content type application/json and a body that [is the serialisation of] the returned value", on top of
/// whatever the builder already carries; a value that cannot be serialised, or a builder that already failed, is refused with an error
pub open spec fn json_response(json: Option<Seq<char>>, status: StatusCode, failed: bool, hdrs: Seq<(Seq<char>, Seq<char>)>, r: HttpHandlerResult) -> bool {
    match json {
        None => r is Err,
        Some(s) =>
            if failed { r is Err }
            else {
                &&& r is Ok
                &&& r->Ok_0.status == status
                &&& hm_view(r->Ok_0.hdrs) == hdrs.push(("content-type"@, "application/json"@))
                &&& r->Ok_0.body.bytes@ == s
            },
    }
}
/// a raw body is sent as it is, as application/octet-stream
pub open spec fn freeform_response(body: Body, status: StatusCode, failed: bool, hdrs: Seq<(Seq<char>, Seq<char>)>, r: HttpHandlerResult) -> bool {
    if failed { r is Err }
    else {
        &&& r is Ok
        &&& r->Ok_0.status == status
        &&& hm_view(r->Ok_0.hdrs) == hdrs.push(("content-type"@, "application/octet-stream"@))
        &&& r->Ok_0.body == body
    }
}
/// "or with an empty body for no-content ... responses"
pub open spec fn empty_response(status: StatusCode, failed: bool, hdrs: Seq<(Seq<char>, Seq<char>)>, r: HttpHandlerResult) -> bool {
    if failed { r is Err }
    else {
        &&& r is Ok
        &&& r->Ok_0.status == status
        &&& hm_view(r->Ok_0.hdrs) == hdrs
        &&& r->Ok_0.body.bytes@ == Seq::<char>::empty()
    }
}

/// C12, first sentence, for the JSON kinds: what `HttpResponseOk(v).into()` (likewise Created / Accepted with their
/// codes) puts on the wire for any serialisable `v` -- over the contracts of `From<HttpResponseOk<T>>::from`,
/// `for_object` and the blanket `to_response`
pub proof fn json_kind_on_the_wire<T: JsonSchema + Serialize>(v: T, code: u16, r: HttpHandlerResult)
    requires
        v.to_response_rel(StatusCode { code }, false, Seq::empty(), r),   // postcondition of From<HttpResponseXxx<T>>::from
        json_of(v) is Some,
    ensures
        r is Ok,
        r->Ok_0.status.code == code, // @sent_with_the_declared_status
        hm_view(r->Ok_0.hdrs) == seq![("content-type"@, "application/json"@)], // @content_type_is_application_json
        r->Ok_0.body.bytes@ == json_of(v)->Some_0, // @body_is_the_serialisation_of_the_returned_value
{
    assert(Seq::<(Seq<char>, Seq<char>)>::empty().push(("content-type"@, "application/json"@)) =~= seq![("content-type"@, "application/json"@)]);
}
/// a value whose serialisation fails is answered with an error, never sent half-way
pub proof fn unserialisable_value_is_an_error<T: JsonSchema + Serialize>(v: T, code: u16, r: HttpHandlerResult)
    requires v.to_response_rel(StatusCode { code }, false, Seq::empty(), r), json_of(v) is None,
    ensures r is Err // @serialisation_failure_is_an_error
{}

proof fn sentinel_v15_prelude_consistent()
    ensures false
{
    broadcast use ax_constant_header_values_ok;
}
proof fn sentinel_json_response_not_always(json: Option<Seq<char>>, status: StatusCode, hdrs: Seq<(Seq<char>, Seq<char>)>, r: HttpHandlerResult)
    ensures json_response(json, status, false, hdrs, r)
{}
