//@ ret r
//@ contract
        ensures wf_node(*r.root), r.root.edges is None, !r.has_versioned_routes, // @a_new_router_satisfies_the_representation_invariant
