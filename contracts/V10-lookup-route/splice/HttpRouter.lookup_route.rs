//@ attrs
#[verifier::exec_allows_no_decreases_clause]
//@ ret r
//@ contract
        requires
            wf_node(*self.root),
        ensures
            // an undecodable path is refused with 400 before any routing (the splitting itself is C03's subject)
            segments_of(path) is Err ==> r is Err && status_of(r->Err_0) == 400, // @bad_path_encoding_is_400
            segments_of(path) is Ok ==> ({
                let segs = segments_of(path)->Ok_0;
                let m = upper_string(method_text(*method));
                match walk_to(*self.root, segs, Map::empty()) {
                    // no node for this path: 404
                    None => r is Err && status_of(r->Err_0) == 404,
                    Some((n0, vars0)) => f5_exception(n0, m, version) /* known finding F5 */ || ({
                        let (n, vars) = end_step(n0, vars0);
                        match first_match(handlers_for(n, m), version) {
                            // C01: exactly the endpoint registered for (path node, method, version), with the
                            // variables bound along the path and that endpoint's own metadata
                            Some(i) => {
                                let h = handlers_for(n, m)[i];
                                &&& r is Ok
                                &&& r->Ok_0.handler == h.handler
                                &&& vars_view(r->Ok_0.endpoint.variables@) == vars
                                &&& r->Ok_0.endpoint.operation_id@ == h.operation_id@
                                &&& r->Ok_0.endpoint.request_body_max_bytes == h.request_body_max_bytes
                            },
                            // C04: 405 iff the path is served at this version for some other method, else 404;
                            // "A 405 response carries an Allow header listing exactly the methods for which that
                            //  path is served at that version"
                            None => {
                                &&& r is Err
                                &&& status_of(r->Err_0) == (if served_for_some_method(n, version) { 405u16 } else { 404u16 })
                                &&& served_for_some_method(n, version) ==>
                                        (forall|t: Seq<char>| allow_has(r->Err_0, t) <==> method_served(n, version, t))
                            },
                        }
                    }),
                }
            }), // @dispatch_follows_the_registered_routes
            // C03: whatever the trie looks like, a handler never sees '.', '..' or the empty string as a variable value
            (r is Ok && !(segments_of(path) is Ok && walk_to(*self.root, segments_of(path)->Ok_0, Map::empty()) is Some && f5_exception(walk_to(*self.root, segments_of(path)->Ok_0, Map::empty())->Some_0.0, upper_string(method_text(*method)), version))) ==> values_ok(vars_view(r->Ok_0.endpoint.variables@)), // @no_dot_or_empty_segment_reaches_a_handler_as_a_variable_value
//@ body_start
        broadcast use ax_string_ext, ax_string_obeys_cmp, ax_upper_string, ax_segments_are_good;
        proof {
            if segments_of(path) is Ok {
                assert(values_ok(Map::<String, VarSpec>::empty()));
                walk_binds_only_request_segments(*self.root, segments_of(path)->Ok_0, Map::empty());
            }
        }
//@ closure 0
|_e: String| -> (h: HttpError) ensures status_of(h) == 400
//@ closure 1
|| -> (h: HttpError) ensures status_of(h) == 404
//@ closure 2
|v: &Vec<ApiEndpoint<Context>>| -> (s: &[ApiEndpoint<Context>]) ensures s@ == v@
//@ closure 3
|handlers: &Vec<ApiEndpoint<Context>>| -> (b: bool) ensures b == (first_match(handlers@, version) is Some)
//@ before "while let" 0
        proof {
            assert(vars_view(variables@) =~= Map::<String, VarSpec>::empty());
        }
//@ loop 0 header
[depth=0] while let
//@ loop 0 invariant
            invariant
                segments_of(path) is Ok, // @inv_path_decoded
                wf_node(**node), // @inv_current_node_wellformed
                walk_to(*self.root, segments_of(path)->Ok_0, Map::empty())
                    == walk_to(**node, IteratorSpec::remaining(&all_segments), vars_view(variables@)), // @inv_rest_of_the_walk_from_here
            ensures
                IteratorSpec::remaining(&all_segments).len() == 0,
//@ loop 0 body_start
            broadcast use ax_string_ext, ax_string_obeys_cmp;
            let ghost rem_after = IteratorSpec::remaining(&all_segments);
            let ghost seg0 = segment;
            let ghost vars0 = variables@;
            proof {
                assert forall|k: String, v: VariableValue| #[trigger] vars_view(vars0.insert(k, v)) == vars_view(vars0).insert(k, var_view(v)) by {
                    vars_view_insert(vars0, k, v);
                }
            }
//@ loop 1 header
[depth=1] while let
//@ loop 1 invariant
                        invariant
                            rest@ + IteratorSpec::remaining(&all_segments) == seq![seg0] + rem_after, // @inv_wildcard_collects_every_remaining_segment
                        ensures
                            IteratorSpec::remaining(&all_segments).len() == 0,
                            rest@ =~= seq![seg0] + rem_after,
//@ before "match &node.edges" 1
        let ghost vars1 = variables@;
        proof {
            assert forall|k: String, v: VariableValue| #[trigger] vars_view(vars1.insert(k, v)) == vars_view(vars1).insert(k, var_view(v)) by {
                vars_view_insert(vars1, k, v);
            }
        }
//@ after "to_uppercase_();" 0
        proof { ax_string_ext(methodname, upper_string(method_text(*method))); }
//@ loop 2 header
[depth=0] for
//@ loop_iter 2 it
//@ loop 2 invariant
                invariant
                    status_of(err) == 405, // @inv_still_405
                    wf_node(**node),
                    hist == it.history@,
                    it.history@ + IteratorSpec::remaining(&it.iter) == IteratorSpec::remaining(&it.snapshot@),
                    forall|k: String| node.methods@.contains_key(k) ==> exists|i: int| 0 <= i < IteratorSpec::remaining(&it.snapshot@).len()
                        && *IteratorSpec::remaining(&it.snapshot@)[i].0 == k,
                    forall|j: int| 0 <= j < hist.len() ==> node.methods@.contains_key(*hist[j].0) && node.methods@[*hist[j].0] == *hist[j].1,
                    // the Allow values added so far are exactly the visited methods that are served at this version
                    forall|t: Seq<char>| allow_has(err, t) <==> (exists|j: int| 0 <= j < hist.len() && (#[trigger] hist[j]).0@ == t
                        && first_match(hist[j].1@, version) is Some), // @inv_allow_so_far_is_exactly_the_served_methods_visited
//@ loop 2 body_start
                broadcast use ax_string_obeys_cmp;
                assert(node.methods@.contains_key(*allowed));
                assert(header_value_ok(allowed@));
                let ghost err0 = err;
                let ghost hist0 = hist;
                proof { hist = hist.push((allowed, handlers)); }
//@ loop 2 body_end
                proof {
                    if first_match(handlers@, version) is Some {
                        allow_push(err0, err, allowed@);
                    }
                    assert forall|t: Seq<char>| allow_has(err, t) <==> (exists|j: int| 0 <= j < hist.len() && (#[trigger] hist[j]).0@ == t
                        && first_match(hist[j].1@, version) is Some) by {
                        let last = hist0.len() as int;
                        assert(hist[last] == (allowed, handlers));
                        assert(forall|j: int| 0 <= j < hist0.len() ==> hist[j] == hist0[j]);
                        if exists|j: int| 0 <= j < hist0.len() && (#[trigger] hist0[j]).0@ == t && first_match(hist0[j].1@, version) is Some {
                            let j = choose|j: int| 0 <= j < hist0.len() && (#[trigger] hist0[j]).0@ == t && first_match(hist0[j].1@, version) is Some;
                            assert(hist[j].0@ == t);
                        }
                    }
                }
//@ before "for (allowed, handlers)" 0
            let ghost mut hist: Seq<(&String, &Vec<ApiEndpoint<Context>>)> = Seq::empty();
            proof { assert(own_headers(err) =~= Seq::<(Seq<char>, Seq<char>)>::empty()); }
//@ before "Err(err)" 0
            proof {
                // every method of the node was visited ...
                assert(forall|k: String| node.methods@.contains_key(k) ==> exists|i: int| 0 <= i < hist.len() && *hist[i].0 == k);
                // ... so the Allow values are exactly the methods served at this version
                assert forall|t: Seq<char>| allow_has(err, t) <==> method_served(**node, version, t) by {
                    if allow_has(err, t) {
                        let j = choose|j: int| 0 <= j < hist.len() && (#[trigger] hist[j]).0@ == t && first_match(hist[j].1@, version) is Some;
                        assert(node.methods@.contains_key(*hist[j].0));
                    }
                    if method_served(**node, version, t) {
                        let k = choose|k: String| #[trigger] node.methods@.contains_key(k) && k@ == t && first_match(node.methods@[k]@, version) is Some;
                        let i = choose|i: int| 0 <= i < hist.len() && *hist[i].0 == k;
                        assert(hist[i].0@ == t);
                    }
                }
            }
