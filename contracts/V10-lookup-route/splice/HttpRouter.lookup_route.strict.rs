//@ base HttpRouter.lookup_route.rs
//@ contract_extra
            // STRICT (no carve-out for F5): a path that ends at a node serves that node's own endpoints, whether or
            // not the node also has a trailing-wildcard child
            segments_of(path) is Ok ==> ({
                let m = upper_string(method_text(*method));
                match walk_to(*self.root, segments_of(path)->Ok_0, Map::empty()) {
                    Some((n0, vars0)) => match first_match(handlers_for(n0, m), version) {
                        Some(i) => r is Ok && r->Ok_0.handler == handlers_for(n0, m)[i].handler && vars_view(r->Ok_0.endpoint.variables@) == vars0,
                        None => true,
                    },
                    None => true,
                }
            }), // @own_endpoints_of_a_node_are_served_even_with_a_wildcard_child
