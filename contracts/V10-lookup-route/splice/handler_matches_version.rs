//@ ret r
//@ contract
        requires wf(h.versions)
        ensures r == matches_spec(h.versions, version) // @the_find_predicate_is_range_membership
