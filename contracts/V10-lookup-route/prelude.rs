use vstd::prelude::*;
use vstd::std_specs::cmp::*;
use vstd::std_specs::iter::IteratorSpec;
use core::cmp::Ordering;
use std::collections::BTreeMap;
use std::sync::Arc;
//@ items
//@ include ../_common/prelude_version.rs
//@ include ../_common/prelude_http.rs
//@ include ../_common/prelude_error.rs
//@ include ../_common/prelude_router.rs
#[verifier::external_body]
pub struct InputPath<'a> { _p: &'a u8 }
/// router.rs: input_path_to_segments (C03's subject: splitting, dot-segments, percent-decoding) -- out of
/// reach of both verifiers (DESIGN section 5); here an uninterpreted partial function of the path
pub uninterp spec fn segments_of(p: InputPath<'_>) -> Result<Seq<String>, String>;
/// C03: a segment that may be delivered to a handler
pub open spec fn good_segment(s: String) -> bool { s@ != "."@ && s@ != ".."@ && s@.len() > 0 }
/// the contract of input_path_to_segments as PROVED in unit V12 (obligation
/// `input_path_to_segments#no_dot_or_empty_segment_is_delivered`): segments_of is, by definition, what that function
/// returns, so what it returns on success contains no '.', '..' or empty segment
pub broadcast axiom fn ax_segments_are_good(p: InputPath<'_>)
    ensures #[trigger] segments_of(p) is Ok ==> forall|i: int| 0 <= i < segments_of(p)->Ok_0.len() ==> good_segment(#[trigger] segments_of(p)->Ok_0[i]);
#[verifier::external_body]
pub fn input_path_to_segments(path: &InputPath) -> (r: Result<Vec<String>, String>)
    ensures (r is Ok) == (segments_of(*path) is Ok),
        r is Ok ==> r->Ok_0@ == segments_of(*path)->Ok_0,
{ unimplemented!() }

/// header name/value plumbing of HttpError::add_header (generic over TryFrom in the real code)
#[verifier::external_body]
pub fn header_allow() -> (r: HeaderName) ensures r.name@ == "allow"@ { unimplemented!() }
#[verifier::external_body]
pub fn header_accept() -> (r: HeaderName) ensures r.name@ == "accept"@ { unimplemented!() }
/// DoubleEndedIterator::next_back of vec::IntoIter: takes from the BACK of what remains
pub assume_specification<T, A: core::alloc::Allocator>[ <std::vec::IntoIter<T, A> as DoubleEndedIterator>::next_back ](it: &mut std::vec::IntoIter<T, A>) -> (r: Option<T>)
    ensures
        IteratorSpec::remaining(&*old(it)).len() == 0 ==> r is None && IteratorSpec::remaining(&*final(it)).len() == 0,
        IteratorSpec::remaining(&*old(it)).len() > 0 ==> r == Some(IteratorSpec::remaining(&*old(it)).last())
            && IteratorSpec::remaining(&*final(it)) == IteratorSpec::remaining(&*old(it)).drop_last();
#[verifier::external_body]
#[derive(Debug)]
pub struct HttpErrorKind { _p: u8 }
pub open spec fn own_headers(e: HttpError) -> Seq<(Seq<char>, Seq<char>)> {
    match e.headers { Some(h) => hm_view(*h), None => Seq::empty() }
}
impl HttpError {
    /// HttpError::add_header at (K, V) = (HeaderName, &String): the instance of the contract that unit V21 verifies
    /// on the real generic function (name_text = Some(name), value_text = Some(value) iff it is a legal header
    /// value).  ASSUMED on top of it: the error's header map is not full (http's limit is 32768 entries; this loop
    /// adds one per method name of one trie node).
    #[verifier::external_body]
    pub fn add_header(&mut self, name: HeaderName, value: &String) -> (r: Result<&mut Self, HttpErrorKind>)
        ensures
            (r is Ok) == header_value_ok(value@),
            r is Ok ==> *final(self) == *final(r->Ok_0),
            r is Ok ==> own_headers(*(r->Ok_0)) == own_headers(*old(self)).push((name.name@, value@)),
            r is Ok ==> same_but_headers(*(r->Ok_0), *old(self)),
            r is Err ==> own_headers(*final(self)) == own_headers(*old(self)) && same_but_headers(*final(self), *old(self)),
    { unimplemented!() }
}
pub open spec fn same_but_headers(a: HttpError, b: HttpError) -> bool {
    a.status_code == b.status_code && a.error_code == b.error_code
        && a.external_message == b.external_message && a.internal_message == b.internal_message
}
impl ClientErrorStatusCode {
    pub const METHOD_NOT_ALLOWED: ClientErrorStatusCode = ClientErrorStatusCode(StatusCode { code: 405 });
}

pub open spec fn matches_spec(r: ApiEndpointVersions, version: Option<&Version>) -> bool {
    match version { None => true, Some(v) => in_range(r, *v) }
}
/// index of the first endpoint in the list whose range contains the version (None: no such endpoint)
pub open spec fn first_match<C: ServerContext>(hs: Seq<ApiEndpoint<C>>, version: Option<&Version>) -> Option<int>
    decreases hs.len()
{
    if hs.len() == 0 { None }
    else if matches_spec(hs[0].versions, version) { Some(0int) }
    else { match first_match(hs.skip(1), version) { Some(i) => Some(i + 1), None => None } }
}
/// router.rs: find_handler_matching_version = `handlers.into_iter().find(|h| h.versions.matches(version))`.
/// Iterator::find has no vstd contract; this contract is what Kani unit K6 proves of the REAL function
/// (first element whose range contains the version; None iff none) for lists of up to three.
/// what `handlers.into_iter()` goes through: a slice / Vec in order, or the zero-or-one element of an Option
pub trait HandlerSource<'a, C: ServerContext>: Sized { spec fn items(self) -> Seq<ApiEndpoint<C>>; }
impl<'a, C: ServerContext> HandlerSource<'a, C> for &'a [ApiEndpoint<C>] { open spec fn items(self) -> Seq<ApiEndpoint<C>> { self@ } }
impl<'a, C: ServerContext> HandlerSource<'a, C> for &'a Vec<ApiEndpoint<C>> { open spec fn items(self) -> Seq<ApiEndpoint<C>> { self@ } }
impl<'a, C: ServerContext> HandlerSource<'a, C> for Option<&'a ApiEndpoint<C>> {
    open spec fn items(self) -> Seq<ApiEndpoint<C>> { match self { Some(x) => seq![*x], None => Seq::empty() } }
}
#[verifier::external_body]
pub fn find_handler_matching_version<'a, C: ServerContext, S: HandlerSource<'a, C>>(handlers: S, version: Option<&Version>) -> (r: Option<&'a ApiEndpoint<C>>)
    ensures
        (r is Some) == (first_match(handlers.items(), version) is Some),
        r is Some ==> *r->Some_0 == handlers.items()[first_match(handlers.items(), version)->Some_0],
{ unimplemented!() }
/// `map.values().any(f)` (W1: written as a function call): Iterator::any has no vstd contract
#[verifier::external_body]
pub fn btree_values_any<V, F: Fn(&V) -> bool>(m: &BTreeMap<String, V>, f: F) -> (r: bool)
    requires forall|v: &V| call_requires(f, (v,)),
    ensures
        // `any` returned true: the closure returned true on some value;
        // `any` returned false: the closure was evaluated on EVERY value and returned false each time
        r ==> exists|k: String| #[trigger] m@.contains_key(k) && call_ensures(f, (&m@[k],), true),
        !r ==> forall|k: String| #[trigger] m@.contains_key(k) ==> call_ensures(f, (&m@[k],), false),
{ unimplemented!() }
