//@ include ../_common/spec_version.rs
//@ include ../_common/spec_router.rs
/// known finding F5 (known_findings.txt `shadowed_by_wildcard`): the path ends at a node that has endpoints of its
/// own AND a trailing-wildcard child.  The property says the node's own endpoints serve that path; lookup_route
/// always descends into the wildcard child, so they are unreachable.
pub open spec fn shadowed_by_wildcard<C: ServerContext>(n: HttpRouterNode<C>) -> bool {
    n.edges is Some && n.edges->Some_0 is VariableRest && (exists|k: String| #[trigger] n.methods@.contains_key(k))
}

/// C04: "the same path at the same API version is served for some other method"
pub open spec fn served_for_some_method<C: ServerContext>(n: HttpRouterNode<C>, version: Option<&Version>) -> bool {
    exists|k: String| #[trigger] n.methods@.contains_key(k) && first_match(n.methods@[k]@, version) is Some
}
/// The requests on which F5 shows: the path ends at a shadowed node AND that node's own endpoints matter to the
/// answer -- either one of them should serve the request, or (no endpoint of the node or of its wildcard child
/// serves it) the node's own methods should count for the 404/405 decision and the Allow list.  Every other request
/// that ends at a shadowed node (e.g. one that the wildcard child serves with an empty remainder) is NOT excepted.
pub open spec fn f5_exception<C: ServerContext>(n0: HttpRouterNode<C>, m: String, version: Option<&Version>) -> bool {
    shadowed_by_wildcard(n0) && (
        first_match(handlers_for(n0, m), version) is Some
        || (first_match(handlers_for(end_step(n0, Map::empty()).0, m), version) is None && served_for_some_method(n0, version))
    )
}

/// C04: "exactly the methods for which that path is served at that version"
pub open spec fn method_served<C: ServerContext>(n: HttpRouterNode<C>, version: Option<&Version>, t: Seq<char>) -> bool {
    exists|k: String| #[trigger] n.methods@.contains_key(k) && k@ == t && first_match(n.methods@[k]@, version) is Some
}
/// the error carries an `Allow: t` header
pub open spec fn allow_has(e: HttpError, t: Seq<char>) -> bool {
    exists|i: int| 0 <= i < own_headers(e).len() && #[trigger] own_headers(e)[i] == ("allow"@, t)
}


/// C02 converse ("whenever registration succeeds no request can match two endpoints"): in a well-formed trie the
/// endpoints a node holds for one method name pairwise share no version (wf_node, kept by HttpRouter::insert: unit
/// V14), so at most one of them serves a given version -- `first_match` is THE match, whatever the order of the list
pub proof fn at_most_one_endpoint_serves<C: ServerContext>(n: HttpRouterNode<C>, k: String, v: Version, i: int, j: int)
    requires
        wf_node(n),
        n.methods@.contains_key(k),
        0 <= i < n.methods@[k]@.len(), 0 <= j < n.methods@[k]@.len(),
        in_range(n.methods@[k]@[i].versions, v), in_range(n.methods@[k]@[j].versions, v),
    ensures i == j // @no_request_matches_two_endpoints
{
    let hs = n.methods@[k]@;
    if i < j { assert(in_range(hs[i].versions, v) && in_range(hs[j].versions, v)); assert(shared(hs[i].versions, hs[j].versions)); }
    if j < i { assert(in_range(hs[j].versions, v) && in_range(hs[i].versions, v)); assert(shared(hs[j].versions, hs[i].versions)); }
}


/// C03: "Consequently no path segment delivered to a handler as a variable value is ever '.', '..' or the empty string"
pub open spec fn value_ok(v: VarSpec) -> bool {
    match v { VarSpec::Str(s) => good_segment(s), VarSpec::Comps(c) => forall|i: int| 0 <= i < c.len() ==> good_segment(#[trigger] c[i]) }
}
pub open spec fn values_ok(m: Map<String, VarSpec>) -> bool { forall|k: String| #[trigger] m.contains_key(k) ==> value_ok(m[k]) }
/// the walk binds nothing but request segments
pub proof fn walk_binds_only_request_segments<C: ServerContext>(n: HttpRouterNode<C>, segs: Seq<String>, vars: Map<String, VarSpec>)
    requires values_ok(vars), forall|i: int| 0 <= i < segs.len() ==> good_segment(#[trigger] segs[i])
    ensures
        walk_to(n, segs, vars) is Some ==> values_ok(walk_to(n, segs, vars)->Some_0.1)
            && values_ok(end_step(walk_to(n, segs, vars)->Some_0.0, walk_to(n, segs, vars)->Some_0.1).1), // @variables_are_bound_to_request_segments_only
    decreases segs.len(), n
{
    if segs.len() > 0 {
        let rest = segs.skip(1);
        assert(forall|i: int| 0 <= i < rest.len() ==> good_segment(#[trigger] rest[i]));
        match n.edges {
            None => {},
            Some(HttpRouterEdges::Literals(m)) => { if m@.contains_key(segs[0]) { walk_binds_only_request_segments(*m@[segs[0]], rest, vars); } },
            Some(HttpRouterEdges::VariableSingle(name, child)) => {
                walk_binds_only_request_segments(*child, rest, vars.insert(name, VarSpec::Str(segs[0])));
            },
            Some(HttpRouterEdges::VariableRest(name, child)) => {
                assert(seq![segs[0]] + rest =~= segs);
            },
        }
    }
}

proof fn sentinel_v10_prelude_consistent()
    ensures false
{
    broadcast use vle_total, vle_antisym, vle_trans, ax_string_ext, ax_string_obeys_cmp;
}
proof fn sentinel_walk_not_always_none<C: ServerContext>(n: HttpRouterNode<C>, segs: Seq<String>)
    requires wf_node(n)
    ensures walk_to(n, segs, Map::empty()) is None
{}
proof fn sentinel_walk_not_always_some<C: ServerContext>(n: HttpRouterNode<C>, segs: Seq<String>)
    requires wf_node(n)
    ensures walk_to(n, segs, Map::empty()) is Some
{}
proof fn sentinel_shadowing_not_always<C: ServerContext>(n: HttpRouterNode<C>)
    requires wf_node(n)
    ensures shadowed_by_wildcard(n)
{}

pub proof fn allow_push(e0: HttpError, e1: HttpError, v: Seq<char>)
    requires own_headers(e1) == own_headers(e0).push(("allow"@, v))
    ensures forall|t: Seq<char>| allow_has(e1, t) <==> (allow_has(e0, t) || t == v) // @allow_after_push
{
    assert forall|t: Seq<char>| allow_has(e1, t) <==> (allow_has(e0, t) || t == v) by {
        let n0 = own_headers(e0).len() as int;
        if allow_has(e0, t) {
            let i = choose|i: int| 0 <= i < own_headers(e0).len() && #[trigger] own_headers(e0)[i] == ("allow"@, t);
            assert(own_headers(e1)[i] == ("allow"@, t));
        }
        if t == v { assert(own_headers(e1)[n0] == ("allow"@, t)); }
        if allow_has(e1, t) {
            let i = choose|i: int| 0 <= i < own_headers(e1).len() && #[trigger] own_headers(e1)[i] == ("allow"@, t);
            if i < n0 { assert(own_headers(e0)[i] == ("allow"@, t)); } else { assert(t == v); }
        }
    }
}

pub proof fn wildcard_gets_all(segs: Seq<String>)
    requires segs.len() > 0
    ensures seq![segs[0]] + segs.skip(1) == segs // @wildcard_receives_all_remaining_segments
{
    assert(seq![segs[0]] + segs.skip(1) =~= segs);
}

pub proof fn vars_view_insert(m: Map<String, VariableValue>, k: String, v: VariableValue)
    ensures vars_view(m.insert(k, v)) == vars_view(m).insert(k, var_view(v)) // @view_of_insert
{
    assert(vars_view(m.insert(k, v)) =~= vars_view(m).insert(k, var_view(v)));
}
