// ---- CHECKED: what "delivered" means, from the statement of C11 ----

/// the data chunks a peer delivers before the first transport error (trailers skipped)
pub open spec fn data_chunks(fs: Seq<FrameSpec>) -> Seq<Seq<u8>>
    decreases fs.len()
{
    if fs.len() == 0 { Seq::empty() }
    else { match fs[0] {
        FrameSpec::Data(d) => seq![d] + data_chunks(fs.skip(1)),
        FrameSpec::Trailers => data_chunks(fs.skip(1)),
        FrameSpec::Error => Seq::empty(),
    } }
}
pub open spec fn has_error(fs: Seq<FrameSpec>) -> bool
    decreases fs.len()
{
    if fs.len() == 0 { false } else { fs[0] is Error || has_error(fs.skip(1)) }
}
pub open spec fn total(cs: Seq<Seq<u8>>) -> nat
    decreases cs.len()
{
    if cs.len() == 0 { 0 } else { total(cs.drop_last()) + cs.last().len() }
}
/// concatenation of chunks: what a buffered extractor hands to the handler
pub open spec fn concat_all(cs: Seq<Seq<u8>>) -> Seq<u8>
    decreases cs.len()
{
    if cs.len() == 0 { Seq::empty() } else { concat_all(cs.drop_last()) + cs.last() }
}
/// C11: "the effective limit is its own override or else the server default"
pub open spec fn effective_limit<C: ServerContext>(rqctx: RequestContext<C>) -> usize {
    match rqctx.endpoint.request_body_max_bytes { Some(x) => x, None => rqctx.server.config.default_request_body_max_bytes }
}
/// C10 for the typed body: what the endpoint's declared body type decodes from the bytes, given the request's
/// Content-Type header -- None: the request must be refused.  (Stated for requests that CARRY a Content-Type; what an
/// absent header defaults to is not part of C10 and is left open.)
pub open spec fn typed_body_value<T>(headers: HeaderMap, expected: ApiEndpointBodyContentType, bytes: Seq<u8>) -> Option<T> {
    let hv = hm_get(headers, "content-type"@);
    if hv is Some && !hv_is_text(hv->Some_0) { None }                       // unreadable content type
    else {
        let text = hv_view(hv->Some_0);
        match kind_of_mime(media_type(text)) {
            None => None,                                                   // not one of the supported media types
            Some(requested) => match (expected, requested) {
                (ApiEndpointBodyContentType::Json, ApiEndpointBodyContentType::Json) => json_value::<T>(bytes),
                (ApiEndpointBodyContentType::UrlEncoded, ApiEndpointBodyContentType::UrlEncoded) => urlencoded_value::<T>(bytes),
                _ => None,                                                  // a content type other than the endpoint's
            },
        }
    }
}
/// what a streaming consumer has observed: the chunks yielded so far
pub open spec fn yielded(out: Seq<Bytes>) -> Seq<Seq<u8>> { out.map_values(|b: Bytes| b.data@) }

pub proof fn data_chunks_cons(f: FrameSpec, rest: Seq<FrameSpec>)
    ensures
        data_chunks(seq![f] + rest) == (match f {
            FrameSpec::Data(d) => seq![d] + data_chunks(rest),
            FrameSpec::Trailers => data_chunks(rest),
            FrameSpec::Error => Seq::<Seq<u8>>::empty(),
        }), // @chunks_unfold
        has_error(seq![f] + rest) == (f is Error || has_error(rest)), // @error_unfold
{
    let s = seq![f] + rest;
    assert(s.skip(1) =~= rest);
    assert(s[0] == f);
}
pub proof fn total_push(cs: Seq<Seq<u8>>, c: Seq<u8>)
    ensures total(cs.push(c)) == total(cs) + c.len() // @total_push
{
    assert(cs.push(c).drop_last() =~= cs);
}
pub proof fn total_concat(a: Seq<Seq<u8>>, b: Seq<Seq<u8>>)
    ensures total(a + b) == total(a) + total(b) // @total_concat
    decreases b.len()
{
    if b.len() == 0 { assert(a + b =~= a); }
    else {
        assert((a + b).drop_last() =~= a + b.drop_last());
        total_concat(a, b.drop_last());
    }
}

pub proof fn prefix_of_concat(a: Seq<Seq<u8>>, b: Seq<Seq<u8>>)
    ensures a.is_prefix_of(a + b) // @prefix_of_concat
{
    assert((a + b).subrange(0, a.len() as int) =~= a);
}

proof fn sentinel_frame_model_consistent()
    ensures false
{
    ax_known_reasons();
}
proof fn sentinel_data_chunks_not_always_empty(fs: Seq<FrameSpec>)
    ensures data_chunks(fs).len() == 0
{}
