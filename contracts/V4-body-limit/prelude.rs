use vstd::prelude::*;
use std::num::NonZeroU32;
use std::sync::Arc;
//@ items
//@ include ../_common/prelude_http.rs
//@ include ../_common/prelude_error.rs
pub trait ServerContext {}
pub struct Opaque<T> { pub _p: core::marker::PhantomData<T> }

// ---- TRUSTED: frame model of the request body (assumption A4) ----
// hyper::body::Body / http_body_util::BodyExt::frame / hyper::body::Frame / bytes::Bytes.
// A request body is the sequence of frames the peer will deliver: data chunks (any chunking),
// trailers, or a transport error.  `.frame().await` (await erased, rule W7) takes the next one.
pub enum FrameSpec { Data(Seq<u8>), Trailers, Error }
pub struct Body { pub frames: Ghost<Seq<FrameSpec>> }
pub struct Bytes { pub data: Ghost<Seq<u8>> }
pub struct Frame { pub spec: Ghost<FrameSpec> }
#[verifier::external_body]
pub struct BodyError { _p: u8 }
pub open spec fn frame_result_spec(r: Result<Frame, BodyError>) -> FrameSpec {
    match r { Ok(f) => f.spec@, Err(_) => FrameSpec::Error }
}
impl Bytes {
    /// Bytes::len; a Bytes never exceeds isize::MAX bytes (allocation limit)
    #[verifier::external_body]
    pub fn len(&self) -> (r: usize) ensures r as nat == self.data@.len(), r <= isize::MAX as usize { unimplemented!() }
}
impl Frame {
    #[verifier::external_body]
    pub fn into_data(self) -> (r: Result<Bytes, Frame>)
        ensures match self.spec@ {
            FrameSpec::Data(d) => r is Ok && r->Ok_0.data@ == d,
            _ => r is Err && r->Err_0 == self,
        } { unimplemented!() }
}
impl Body {
    #[verifier::external_body]
    pub fn frame(&mut self) -> (r: Option<Result<Frame, BodyError>>)
        ensures
            old(self).frames@.len() == 0 ==> r is None && final(self).frames@ == old(self).frames@,
            old(self).frames@.len() > 0 ==> r is Some
                && old(self).frames@ == seq![frame_result_spec(r->Some_0)] + final(self).frames@
                && (r->Some_0 is Ok) == !(old(self).frames@[0] is Error),
    { unimplemented!() }
}
/// http_util::http_dump_body (async, generic over the body type): reads and drops the rest
#[verifier::external_body]
pub fn http_dump_body(body: &mut Body) -> (r: Result<usize, BodyError>) { unimplemented!() }

/// hyper::Request<crate::Body>: only the body matters to the body extractors
pub struct Request { pub body: Body }
impl Request {
    #[verifier::external_body]
    pub fn into_body(self) -> (r: Body) ensures r == self.body { unimplemented!() }
}
pub struct BytesMut { pub data: Ghost<Seq<u8>> }
/// futures::future::ok(x): a future that is immediately ready with Ok(x)
#[verifier::external_body]
pub fn future_ok(x: BytesMut) -> (r: Result<BytesMut, HttpError>) ensures r == Ok::<BytesMut, HttpError>(x) { unimplemented!() }
impl BytesMut {
    /// bytes::BufMut::put for BytesMut: appends the bytes
    #[verifier::external_body]
    pub fn put(&mut self, b: Bytes) ensures final(self).data@ == old(self).data@ + b.data@ { unimplemented!() }
    #[verifier::external_body]
    pub fn freeze(self) -> (r: Bytes) ensures r.data@ == self.data@ { unimplemented!() }
}
impl StreamingBody {
    /// A5: `into_bytes_mut` is `self.into_stream().try_fold(BytesMut::new(), |out, chunk| { out.put(chunk); ok(out) })`.
    /// The stream combinator `try_fold` is not extracted; its folding step IS (into_bytes_mut_fold_step: appends exactly
    /// the chunk).  The assumed contract is the contract PROVED for `into_stream_erased`, with "the chunks yielded"
    /// replaced by their concatenation -- i.e. what try_fold computes from that step.
    #[verifier::external_body]
    pub fn into_bytes_mut(self) -> (r: Result<BytesMut, HttpError>)
        ensures
            self.cap <= usize::MAX - isize::MAX as usize ==> {
                &&& (r is Ok) == (!has_error(self.body.frames@) && total(data_chunks(self.body.frames@)) <= self.cap)
                &&& (r is Ok ==> r->Ok_0.data@ == concat_all(data_chunks(self.body.frames@)))
                &&& (r is Err ==> status_of(r->Err_0) == 400)
            }
    { unimplemented!() }
}
