use vstd::prelude::*;
use std::num::NonZeroU32;
use std::sync::Arc;
//@ items
//@ include ../_common/prelude_http.rs
//@ include ../_common/prelude_error.rs
pub trait ServerContext {}
pub struct Opaque<T> { pub _p: core::marker::PhantomData<T> }

// ---- TRUSTED: frame model of the request body (assumption A4) ----
// hyper::body::Body / http_body_util::BodyExt::frame / hyper::body::Frame / bytes::Bytes.
// A request body is the sequence of frames the peer will deliver: data chunks (any chunking),
// trailers, or a transport error.  `.frame().await` (await erased, rule W7) takes the next one.
pub enum FrameSpec { Data(Seq<u8>), Trailers, Error }
pub struct Body { pub frames: Ghost<Seq<FrameSpec>> }
pub struct Bytes { pub data: Ghost<Seq<u8>> }
pub struct Frame { pub spec: Ghost<FrameSpec> }
#[verifier::external_body]
pub struct BodyError { _p: u8 }
pub open spec fn frame_result_spec(r: Result<Frame, BodyError>) -> FrameSpec {
    match r { Ok(f) => f.spec@, Err(_) => FrameSpec::Error }
}
impl Bytes {
    /// Bytes::len; a Bytes never exceeds isize::MAX bytes (allocation limit)
    #[verifier::external_body]
    pub fn len(&self) -> (r: usize) ensures r as nat == self.data@.len(), r <= isize::MAX as usize { unimplemented!() }
}
impl Frame {
    #[verifier::external_body]
    pub fn into_data(self) -> (r: Result<Bytes, Frame>)
        ensures match self.spec@ {
            FrameSpec::Data(d) => r is Ok && r->Ok_0.data@ == d,
            _ => r is Err && r->Err_0 == self,
        } { unimplemented!() }
}
impl Body {
    #[verifier::external_body]
    pub fn frame(&mut self) -> (r: Option<Result<Frame, BodyError>>)
        ensures
            old(self).frames@.len() == 0 ==> r is None && final(self).frames@ == old(self).frames@,
            old(self).frames@.len() > 0 ==> r is Some
                && old(self).frames@ == seq![frame_result_spec(r->Some_0)] + final(self).frames@
                && (r->Some_0 is Ok) == !(old(self).frames@[0] is Error),
    { unimplemented!() }
}

/// hyper::Request<crate::Body>: only the body matters to the body extractors
pub struct Request { pub body: Body, pub headers: HeaderMap }
/// http::request::Parts: only the headers matter here
pub struct Parts { pub headers: HeaderMap }
impl Request {
    #[verifier::external_body]
    pub fn into_body(self) -> (r: Body) ensures r == self.body { unimplemented!() }
    #[verifier::external_body]
    pub fn into_parts(self) -> (r: (Parts, Body)) ensures r.0.headers == self.headers, r.1 == self.body { unimplemented!() }
}

// ---- TRUSTED: what the TypedBody extractor hands to its dependencies ----
/// bounds of TypedBody (schemars::JsonSchema, serde::de::DeserializeOwned): marker traits
pub trait DeserializeOwned {}
pub trait JsonSchema {}
/// HeaderMap::get: the first value stored under the name, if any
pub uninterp spec fn hm_get(h: HeaderMap, name: Seq<char>) -> Option<HeaderValue>;
#[verifier::external_body]
#[derive(Debug)]
pub struct ToStrError { _p: u8 }
/// which header values are visible ASCII (HeaderValue::to_str succeeds)
pub uninterp spec fn hv_is_text(h: HeaderValue) -> bool;
impl HeaderMap {
    #[verifier::external_body]
    pub fn get(&self, name: HeaderName) -> (r: Option<&HeaderValue>)
        ensures (r is Some) == (hm_get(*self, name.name@) is Some), r is Some ==> *r->Some_0 == hm_get(*self, name.name@)->Some_0 { unimplemented!() }
}
impl HeaderValue {
    #[verifier::external_body]
    pub fn to_str(&self) -> (r: Result<&str, ToStrError>)
        ensures (r is Ok) == hv_is_text(*self), r is Ok ==> r->Ok_0@ == hv_view(*self) { unimplemented!() }
}
/// std string functions used by the media-type trimming (W1), as uninterpreted functions of the text
pub uninterp spec fn first_index_of(s: Seq<char>, c: char) -> Option<usize>;
pub uninterp spec fn last_index_of(s: Seq<char>, c: char) -> Option<usize>;
pub uninterp spec fn byte_len(s: Seq<char>) -> usize;
pub uninterp spec fn prefix_to(s: Seq<char>, end: usize) -> Seq<char>;
pub uninterp spec fn trim_end_of(s: Seq<char>) -> Seq<char>;
pub uninterp spec fn trim_start_of(s: Seq<char>) -> Seq<char>;
pub uninterp spec fn lower_of(s: Seq<char>) -> Seq<char>;
pub trait StrFns {
    fn find_char(&self, c: char) -> Option<usize>;
    fn rfind_char(&self, c: char) -> Option<usize>;
    fn blen(&self) -> usize;
    fn trim_end_(&self) -> &str;
    fn trim_start_(&self) -> &str;
    fn trim_(&self) -> &str;
    fn to_lowercase_(&self) -> String;
}
impl StrFns for str {
    #[verifier::external_body] fn find_char(&self, c: char) -> (r: Option<usize>) ensures r == first_index_of(self@, c) { unimplemented!() }
    #[verifier::external_body] fn rfind_char(&self, c: char) -> (r: Option<usize>) ensures r == last_index_of(self@, c) { unimplemented!() }
    #[verifier::external_body] fn blen(&self) -> (r: usize) ensures r == byte_len(self@) { unimplemented!() }
    #[verifier::external_body] fn trim_end_(&self) -> (r: &str) ensures r@ == trim_end_of(self@) { unimplemented!() }
    #[verifier::external_body] fn trim_start_(&self) -> (r: &str) ensures r@ == trim_start_of(self@) { unimplemented!() }
    #[verifier::external_body] fn trim_(&self) -> (r: &str) ensures r@ == trim_start_of(trim_end_of(self@)) { unimplemented!() }
    #[verifier::external_body] fn to_lowercase_(&self) -> (r: String) ensures r@ == lower_of(self@) { unimplemented!() }
}
/// `&s[..end]`
#[verifier::external_body]
pub fn str_prefix(s: &str, end: usize) -> (r: &str) ensures r@ == prefix_to(s@, end) { unimplemented!() }
/// RFC 7231 3.1.1.1: the media type of a Content-Type header text is what precedes the FIRST ';' (all of it if there is
/// none), without trailing whitespace, lower-cased
pub open spec fn media_type(ct: Seq<char>) -> Seq<char> {
    let end = match first_index_of(ct, ';') { Some(i) => i, None => byte_len(ct) };
    lower_of(trim_end_of(prefix_to(ct, end)))
}
/// ApiEndpointBodyContentType::from_mime_type: a `match` on four constant strings (const patterns are outside
/// Verus's pattern language): which of the four kinds a media type names, if any
pub uninterp spec fn kind_of_mime(m: Seq<char>) -> Option<ApiEndpointBodyContentType>;
impl ApiEndpointBodyContentType {
    #[verifier::external_body]
    pub fn from_mime_type(mime_type: &str) -> (r: Result<Self, String>)
        ensures (r is Ok) == (kind_of_mime(mime_type@) is Some), r is Ok ==> r->Ok_0 == kind_of_mime(mime_type@)->Some_0 { unimplemented!() }
}
/// #[derive(Clone)] on a field-less enum: the copy equals the original
impl Clone for ApiEndpointBodyContentType {
    #[verifier::external_body]
    fn clone(&self) -> (r: Self) ensures r == *self { unimplemented!() }
}
/// serde_json.  `T::deserialize(&mut Deserializer)` (here through serde_path_to_error) parses ONE value from the
/// front of the input and leaves the rest unread; a whole-document decoder (serde_json::from_slice) additionally
/// demands, with `Deserializer::end`, that only whitespace follows.  C10's "malformed JSON" is about the whole body.
pub uninterp spec fn json_front<T>(bytes: Seq<u8>) -> Option<(T, Seq<u8>)>;
pub uninterp spec fn only_whitespace(rest: Seq<u8>) -> bool;
pub open spec fn json_value<T>(bytes: Seq<u8>) -> Option<T> {
    match json_front::<T>(bytes) { Some((v, rest)) => if only_whitespace(rest) { Some(v) } else { None }, None => None }
}
/// serde_urlencoded consumes the whole input: a partial function of the body bytes
pub uninterp spec fn urlencoded_value<T>(bytes: Seq<u8>) -> Option<T>;
/// the unread input of a serde_json::Deserializer
pub struct JsonDeserializer { pub rest: Ghost<Seq<u8>> }
pub struct UrlDeserializer { pub bytes: Ghost<Seq<u8>> }
#[verifier::external_body]
#[derive(Debug)]
pub struct PathError { _p: u8 }
#[verifier::external_body]
#[derive(Debug)]
pub struct SerdeJsonError { _p: u8 }
#[verifier::external_body]
pub fn json_deserializer(body: &BytesMut) -> (r: JsonDeserializer) ensures r.rest@ == body.data@ { unimplemented!() }
#[verifier::external_body]
pub fn urlencoded_deserializer(body: &BytesMut) -> (r: UrlDeserializer) ensures r.bytes@ == body.data@ { unimplemented!() }
#[verifier::external_body]
pub fn json_decode<T>(jd: &mut JsonDeserializer) -> (r: Result<T, PathError>)
    ensures match json_front::<T>(old(jd).rest@) {
        Some((v, rest)) => r == Ok::<T, PathError>(v) && final(jd).rest@ == rest,
        None => r is Err,
    } { unimplemented!() }
impl JsonDeserializer {
    /// serde_json::Deserializer::end: Ok iff only whitespace is left
    #[verifier::external_body]
    pub fn end(&mut self) -> (r: Result<(), SerdeJsonError>)
        ensures (r is Ok) == only_whitespace(old(self).rest@) { unimplemented!() }
}
#[verifier::external_body]
pub fn urlencoded_decode<T>(ud: UrlDeserializer) -> (r: Result<T, PathError>)
    ensures (r is Ok) == (urlencoded_value::<T>(ud.bytes@) is Some), r is Ok ==> r->Ok_0 == urlencoded_value::<T>(ud.bytes@)->Some_0 { unimplemented!() }
pub struct BytesMut { pub data: Ghost<Seq<u8>> }
/// futures::future::ok(x): a future that is immediately ready with Ok(x)
#[verifier::external_body]
pub fn future_ok(x: BytesMut) -> (r: Result<BytesMut, HttpError>) ensures r == Ok::<BytesMut, HttpError>(x) { unimplemented!() }
impl BytesMut {
    /// bytes::BufMut::put for BytesMut: appends the bytes
    #[verifier::external_body]
    pub fn put(&mut self, b: Bytes) ensures final(self).data@ == old(self).data@ + b.data@ { unimplemented!() }
    #[verifier::external_body]
    pub fn freeze(self) -> (r: Bytes) ensures r.data@ == self.data@ { unimplemented!() }
}
impl StreamingBody {
    /// A5: `into_bytes_mut` is `self.into_stream().try_fold(BytesMut::new(), |out, chunk| { out.put(chunk); ok(out) })`.
    /// The stream combinator `try_fold` is not extracted; its folding step IS (into_bytes_mut_fold_step: appends exactly
    /// the chunk).  The assumed contract is the contract PROVED for `into_stream_erased`, with "the chunks yielded"
    /// replaced by their concatenation -- i.e. what try_fold computes from that step.
    #[verifier::external_body]
    pub fn into_bytes_mut(self) -> (r: Result<BytesMut, HttpError>)
        ensures
            self.cap <= usize::MAX - isize::MAX as usize ==> {
                &&& (r is Ok) == (!has_error(self.body.frames@) && total(data_chunks(self.body.frames@)) <= self.cap)
                &&& (r is Ok ==> r->Ok_0.data@ == concat_all(data_chunks(self.body.frames@)))
                &&& (r is Err ==> is_client_code(status_of(r->Err_0)))
            }
    { unimplemented!() }
}

// ---- TRUSTED: the multipart extractor's dependencies ----
/// a stream of body data chunks, with the bound on the total number of bytes it can ever yield (None: unbounded)
pub struct DataStream { pub frames: Ghost<Seq<FrameSpec>>, pub cap: Ghost<Option<usize>> }
impl Body {
    /// Body::into_data_stream (http-body-util): every data frame of the body, no bound
    #[verifier::external_body]
    pub fn into_data_stream(self) -> (r: DataStream) ensures r.frames@ == self.frames@, r.cap@ is None { unimplemented!() }
}
impl StreamingBody {
    /// StreamingBody::into_stream: the contract PROVED of its generator block (into_stream_erased, this unit): it never
    /// yields more than `cap` bytes in total -- here recorded as the stream's bound
    #[verifier::external_body]
    pub fn into_stream(self) -> (r: DataStream) ensures r.frames@ == self.body.frames@, r.cap@ == Some(self.cap) { unimplemented!() }
}
/// multer::Multipart::new(stream, boundary): a parser that reads the body ONLY through the stream it is given
pub struct Multipart { pub source: DataStream, pub boundary: Ghost<Seq<char>> }
impl Multipart {
    #[verifier::external_body]
    pub fn new(stream: DataStream, boundary: String) -> (r: Multipart) ensures r.source == stream, r.boundary@ == boundary@ { unimplemented!() }
}
pub uninterp spec fn boundary_text(ct: Seq<char>) -> Option<Seq<char>>;
#[verifier::external_body]
pub fn boundary_of(content_type: &str) -> (r: Option<&str>)
    ensures (r is Some) == (boundary_text(content_type@) is Some), r is Some ==> r->Some_0@ == boundary_text(content_type@)->Some_0 { unimplemented!() }
pub trait ToStringSame2 { fn to_string_(&self) -> String; }
impl ToStringSame2 for str {
    #[verifier::external_body]
    fn to_string_(&self) -> (r: String) ensures r@ == self@ { unimplemented!() }
}
