//@ ret r
//@ contract
        ensures
            effective_limit(*rqctx) <= usize::MAX - isize::MAX as usize ==> {
                let cap = effective_limit(*rqctx);
                let sent = data_chunks(request.body.frames@);
                let readable = !has_error(request.body.frames@) && total(sent) <= cap;
                let value = typed_body_value::<BodyType>(request.headers, rqctx.endpoint.body_content_type, concat_all(sent));
                // C11: read under the effective limit; C10: delivered iff readable, of the endpoint's content type and
                // decodable -- and then it is exactly what the decoder produced from the bytes sent
                &&& (r is Ok ==> readable)
                &&& (hm_get(request.headers, "content-type"@) is Some ==> ((r is Ok) == (readable && value is Some)) && (r is Ok ==> r->Ok_0.inner == value->Some_0))
                // "the client receives a 400-level error response ... never a 5xx"
                &&& (r is Err ==> is_client_code(status_of(r->Err_0)))
            }, // @typed_body_delivered_iff_within_limit_right_content_type_and_decodable_else_400
//@ closure 0
|hv: &HeaderValue| -> (x: Result<&str, HttpError>) ensures (x is Ok) == hv_is_text(*hv), x is Ok ==> x->Ok_0@ == hv_view(*hv), x is Err ==> is_client_code(status_of(x->Err_0))
//@ closure 1
|e: ToStrError| -> (h: HttpError) ensures is_client_code(status_of(h))
//@ closure 2
|| -> (n: usize) ensures n == byte_len(content_type@)
//@ closure 3
|e: String| -> (h: HttpError) ensures is_client_code(status_of(h))
//@ closure 4
|e: PathError| -> (h: HttpError) ensures is_client_code(status_of(h))
//@ closure 5
|e: SerdeJsonError| -> (h: HttpError) ensures is_client_code(status_of(h))
//@ closure 6
|e: PathError| -> (h: HttpError) ensures is_client_code(status_of(h))
