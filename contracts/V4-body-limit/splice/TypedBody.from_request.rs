//@ ret r
//@ contract
        ensures
            effective_limit(*rqctx) <= usize::MAX - isize::MAX as usize ==> {
                let cap = effective_limit(*rqctx);
                let sent = data_chunks(request.body.frames@);
                let value = typed_body_value::<BodyType>(request.headers, rqctx.endpoint.body_content_type, concat_all(sent));
                &&& (r is Ok ==> !has_error(request.body.frames@) && total(sent) <= cap)
                &&& (hm_get(request.headers, "content-type"@) is Some ==> ((r is Ok) == (!has_error(request.body.frames@) && total(sent) <= cap && value is Some)) && (r is Ok ==> r->Ok_0.inner == value->Some_0))
                &&& (r is Err ==> is_client_code(status_of(r->Err_0)))
            }, // @typed_body_extractor_refuses_with_400_or_delivers_the_decoded_value
