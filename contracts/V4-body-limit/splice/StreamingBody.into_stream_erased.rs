//@ attrs
#[verifier::exec_allows_no_decreases_clause]
//@ ret r
//@ contract
        requires
            old(out)@.len() == 0,
            // P1: bytes_read + len must not wrap; true for every limit below 2^63 on 64-bit targets
            this0.cap <= usize::MAX - isize::MAX as usize,
            // the drain counter of http_dump_body cannot wrap: bodies below 2^64 bytes
            total(data_chunks(this0.body.frames@)) <= usize::MAX,
        ensures
            // C11 "No handler, buffered or streaming, ever observes more body bytes than the limit"
            total(yielded(final(out)@)) <= this0.cap, // @never_observes_more_than_the_limit
            // what is observed is a prefix, in order and unaltered, of what the peer sent
            yielded(final(out)@).is_prefix_of(data_chunks(this0.body.frames@)), // @observed_is_a_prefix_of_what_was_sent
            // "a body of at most that many bytes is accepted and delivered intact ... any larger body is refused ...
            //  however it is framed or chunked"
            (r is Ok) == (!has_error(this0.body.frames@) && total(data_chunks(this0.body.frames@)) <= this0.cap), // @accepted_iff_within_limit_any_chunking
            r is Ok ==> yielded(final(out)@) == data_chunks(this0.body.frames@), // @delivered_intact
            r is Err ==> is_client_code(status_of(r->Err_0)), // @refused_with_400
//@ closure 0
|e: BodyError| -> (h: HttpError) ensures is_client_code(status_of(h))
//@ closure 1
|e: BodyError| -> (h: HttpError) ensures is_client_code(status_of(h))
//@ loop 0 invariant
                invariant
                    this.cap == this0.cap, this0.cap <= usize::MAX - isize::MAX as usize, // @inv_cap_unchanged
                    bytes_read <= this.cap, // @inv_never_above_the_limit
                    bytes_read as nat == total(yielded(out@)), // @inv_bytes_read_counts_exactly_what_was_yielded
                    yielded(out@) + data_chunks(this.body.frames@) == data_chunks(this0.body.frames@), // @inv_yielded_plus_remaining_is_what_was_sent
                    has_error(this.body.frames@) == has_error(this0.body.frames@), // @inv_no_error_consumed
                    total(data_chunks(this0.body.frames@)) <= usize::MAX,
                ensures
                    this.body.frames@.len() == 0,
//@ loop 0 body_start
                proof {
                    // all hints are stated over the frame just taken, so they do not depend on how the
                    // statements of the loop body are written
                    let cur = this.body.frames@;
                    data_chunks_cons(frame_result_spec(frame_res), cur);
                    total_concat(yielded(out@), data_chunks(seq![frame_result_spec(frame_res)] + cur));
                    prefix_of_concat(yielded(out@), data_chunks(seq![frame_result_spec(frame_res)] + cur));
                    match frame_result_spec(frame_res) {
                        FrameSpec::Data(d) => {
                            // this chunk alone already accounts for d.len() bytes of what the peer sent
                            total_concat(seq![d], data_chunks(cur));
                            total_push(Seq::<Seq<u8>>::empty(), d);
                            assert(Seq::<Seq<u8>>::empty().push(d) =~= seq![d]);
                            total_push(yielded(out@), d);
                            assert(yielded(out@).push(d) + data_chunks(cur) =~= yielded(out@) + (seq![d] + data_chunks(cur)));
                        }
                        _ => {}
                    }
                    assert forall|b: Bytes| #[trigger] yielded(out@.push(b)) =~= yielded(out@).push(b.data@) by {}
                    // what is left to drain is part of what was sent
                    total_concat(yielded(out@), data_chunks(seq![frame_result_spec(frame_res)] + cur));
                    total_concat(seq![Seq::<u8>::empty()], data_chunks(cur));
                }
//@ before "Ok(())" 0
        proof {
            assert(this.body.frames@.len() == 0);
            assert(yielded(out@) + Seq::<Seq<u8>>::empty() =~= yielded(out@));
            prefix_of_concat(yielded(out@), Seq::<Seq<u8>>::empty());
        }
