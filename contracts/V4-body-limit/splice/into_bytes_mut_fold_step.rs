//@ ret r
//@ contract
    ensures r is Ok && r->Ok_0.data@ == out.data@ + chunk.data@, // @buffering_appends_exactly_the_chunk
