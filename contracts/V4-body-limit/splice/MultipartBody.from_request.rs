//@ ret r
//@ contract
        ensures
            // C11 "for ... all body extractors" / "No handler, buffered or streaming, ever observes more body bytes than
            // the limit": the multipart parser handed to the handler reads this request's body through a stream that is
            // capped at the effective limit
            r is Ok ==> r->Ok_0.content.source.frames@ == request.body.frames@
                && r->Ok_0.content.source.cap@ == Some(effective_limit(*rqctx)), // @multipart_parser_reads_through_the_stream_capped_at_the_effective_limit
            // C10: a missing / unreadable content type or a missing boundary is a 400-level refusal
            r is Err ==> is_client_code(status_of(r->Err_0)), // @multipart_refusals_are_4xx
//@ closure 0
|| -> (h: HttpError) ensures is_client_code(status_of(h))
//@ closure 1
|e: ToStrError| -> (h: HttpError) ensures is_client_code(status_of(h))
//@ closure 2
|| -> (h: HttpError) ensures is_client_code(status_of(h))
