//@ attrs
#[verifier::exec_allows_no_decreases_clause]
//@ ret r
//@ contract
    requires
        total(data_chunks(old(body).frames@)) <= usize::MAX,     // the byte counter cannot wrap (bodies below 2^64 bytes)
    ensures
        // reads to the end or to the first transport error, and counts exactly the data bytes it dropped
        r is Ok ==> !has_error(old(body).frames@) && final(body).frames@.len() == 0 && r->Ok_0 == total(data_chunks(old(body).frames@)), // @drains_the_whole_body_and_counts_it
        r is Err ==> has_error(old(body).frames@), // @fails_only_on_a_transport_error
//@ before "while let" 0
    let ghost frames0 = body.frames@;
    let ghost mut seen: Seq<Seq<u8>> = Seq::empty();
    proof { assert(seen + data_chunks(frames0) =~= data_chunks(frames0)); }
//@ loop 0 invariant
        invariant
            seen + data_chunks(body.frames@) == data_chunks(frames0), // @inv_dropped_plus_remaining_is_what_was_sent
            has_error(body.frames@) == has_error(frames0),
            nbytesread as nat == total(seen), // @inv_counter_is_what_was_dropped
            total(data_chunks(frames0)) <= usize::MAX,
            frames0 == old(body).frames@,
        ensures
            body.frames@.len() == 0,
//@ loop 0 body_start
        proof {
            let cur = body.frames@;
            data_chunks_cons(frame_result_spec(maybefr), cur);
            total_concat(seen, data_chunks(seq![frame_result_spec(maybefr)] + cur));
            match frame_result_spec(maybefr) {
                FrameSpec::Data(d) => {
                    total_concat(seq![d], data_chunks(cur));
                    total_push(Seq::<Seq<u8>>::empty(), d);
                    assert(Seq::<Seq<u8>>::empty().push(d) =~= seq![d]);
                    total_push(seen, d);
                    assert(seen.push(d) + data_chunks(cur) =~= seen + (seq![d] + data_chunks(cur)));
                    seen = seen.push(d);
                }
                _ => {}
            }
            if maybefr is Err { assert(has_error(seq![frame_result_spec(maybefr)] + cur)); assert(has_error(frames0)); }
        }
//@ before "Ok(nbytesread)" 0
    proof {
        assert(seen + Seq::<Seq<u8>>::empty() =~= seen);
    }
