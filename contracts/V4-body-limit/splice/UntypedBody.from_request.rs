//@ ret r
//@ contract
        ensures
            effective_limit(*rqctx) <= usize::MAX - isize::MAX as usize ==> {
                let cap = effective_limit(*rqctx);
                let sent = data_chunks(request.body.frames@);
                // "a body of at most that many bytes is accepted and delivered intact, and any larger body is refused
                //  with a 400-level error however it is framed or chunked"
                &&& (r is Ok) == (!has_error(request.body.frames@) && total(sent) <= cap)
                &&& (r is Ok ==> r->Ok_0.content.data@ == concat_all(sent))
                &&& (r is Err ==> is_client_code(status_of(r->Err_0)))
            }, // @buffered_extractor_uses_the_effective_limit_and_delivers_intact
