//@ ret r
//@ contract
        ensures r.cap == cap, r.body == body, // @cap_is_the_limit_given
