//@ ret r
//@ contract
        ensures
            r is Ok, // @streaming_extractor_never_refuses_up_front
            r is Ok ==> r->Ok_0.cap == effective_limit(*rqctx), // @streaming_cap_is_the_effective_limit
            r is Ok ==> r->Ok_0.body == request.body, // @streaming_body_is_the_requests_body
