//@ ret r
//@ contract
    ensures
        // C12 "A redirect location that is not a legal header value is refused with an error instead of being sent"
        (r is Ok) == header_value_ok(location@), // @location_accepted_iff_legal_header_value
        // "redirects carry the given Location": the declared header of the response is exactly the given string
        r is Ok ==> r->Ok_0.structured_headers.location@ == location@ && hm_view(r->Ok_0.other_headers).len() == 0, // @location_carried_as_given
        r is Err ==> is_error_code(status_of(r->Err_0)), // @illegal_location_is_a_server_side_error
//@ closure 0
|e: InvalidHeaderValue| -> (h: HttpError) ensures is_error_code(status_of(h))
