//@ ret r
//@ contract
    ensures status_of(r) == 500, // @redirect_error_is_500
