//@ ret r
//@ contract
    ensures is_error_code(status_of(r)), // @redirect_error_is_500
