//@ ret r
//@ contract
        ensures *r == old(self).other_headers, *final(r) == final(self).other_headers,
            final(self).body == old(self).body, final(self).structured_headers == old(self).structured_headers, // @explicit_headers_are_the_callers_to_edit
