//@ ret r
//@ contract
        ensures
            // success: the coded body's own response, plus the declared headers (each REPLACING what the body's
            // response had under that name), then the explicit headers (each name REPLACING everything before)
            r is Ok ==> to_map_spec(self.structured_headers) is Some && all_legal(to_map_spec(self.structured_headers)->Some_0)
                && body_conv(self.body) is Ok
                && r->Ok_0.status == body_conv(self.body)->Ok_0.status && r->Ok_0.body == body_conv(self.body)->Ok_0.body
                && hm_view(r->Ok_0.hdrs) == hm_extend(
                        insert_all(hm_view(body_conv(self.body)->Ok_0.hdrs), declared(to_map_spec(self.structured_headers)->Some_0)),
                        hm_view(self.other_headers)), // @declared_headers_sent_then_explicit_ones_override
            // "declared response headers ARE sent": legal declared headers on a body that converts are never refused
            body_conv(self.body) is Ok && to_map_spec(self.structured_headers) is Some
                && all_legal(to_map_spec(self.structured_headers)->Some_0) ==> r is Ok, // @legal_declared_headers_are_sent_not_refused
            // a declared header that is not a legal header name/value is refused with an error instead of being sent
            to_map_spec(self.structured_headers) is Some && !all_legal(to_map_spec(self.structured_headers)->Some_0) ==> r is Err, // @illegal_declared_header_refused
//@ closure 0
|e: MapError| -> (h: HttpError) ensures is_error_code(status_of(h))
//@ closure 1
|e: InvalidHeaderName| -> (h: HttpError) ensures is_error_code(status_of(h))
//@ closure 2
|e: InvalidHeaderValue| -> (h: HttpError) ensures is_error_code(status_of(h))
//@ loop_iter 0 it
//@ before "let headers" 0
        let ghost base = result;
        let ghost mut hist: Seq<(String, String)> = Seq::empty();
//@ before "for (key, value)" 0
        let ghost pairs0 = header_map@;
        proof {
            assert(declared(Seq::<(String, String)>::empty()) =~= Seq::<(Seq<char>, Seq<char>)>::empty());
        }
//@ loop 0 invariant
            invariant
                pairs0 == to_map_spec(self.structured_headers)->Some_0, to_map_spec(self.structured_headers) is Some,
                hist == it.history@,
                it.history@ + IteratorSpec::remaining(&it.iter) == pairs0, // @inv_iterating_the_declared_pairs_in_order
                all_legal(it.history@), // @inv_every_pair_so_far_was_legal
                hm_view(*headers) == insert_all(hm_view(base.hdrs), declared(it.history@)), // @inv_declared_so_far_inserted
//@ loop 0 body_start
            let ghost h0 = it.history@;
            let ghost kv = (key, value);
            proof { hist = hist.push(kv); }
            proof {
                // the pair taken now is one of the declared pairs: if it is not legal, not all of them are
                assert(pairs0[h0.len() as int] == kv) by {
                    assert((h0.push(kv) + IteratorSpec::remaining(&it.iter))[h0.len() as int] == kv);
                }
            }
            proof {
                assert(declared(h0.push(kv)) =~= declared(h0).push((header_name_norm(key@), value@)));
                assert(declared(h0).push((header_name_norm(key@), value@)).drop_last() =~= declared(h0));
            }
//@ before "Ok(result)" 0
        proof {
            assert(hist =~= pairs0);
            assert(all_legal(pairs0));
        }
