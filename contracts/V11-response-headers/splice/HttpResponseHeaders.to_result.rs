//@ ret r
//@ contract
        ensures
            // success: the coded body's own response, plus the declared headers (each REPLACING what the body's
            // response had under that name), then the explicit headers (each name REPLACING everything before)
            r is Ok ==> to_map_spec(self.structured_headers) is Some && all_legal(to_map_spec(self.structured_headers)->Some_0)
                && (exists|base: Response| #![trigger base.hdrs]
                    r->Ok_0.status == base.status && r->Ok_0.body == base.body
                    && hm_view(r->Ok_0.hdrs) == hm_extend(
                            insert_all(hm_view(base.hdrs), declared(to_map_spec(self.structured_headers)->Some_0)),
                            hm_view(self.other_headers))), // @declared_headers_sent_then_explicit_ones_override
            // a declared header that is not a legal header name/value is refused with an error instead of being sent
            to_map_spec(self.structured_headers) is Some && !all_legal(to_map_spec(self.structured_headers)->Some_0) ==> r is Err, // @illegal_declared_header_refused
//@ closure 0
|e: MapError| -> (h: HttpError) ensures is_error_code(status_of(h))
//@ closure 1
|e: InvalidHeaderName| -> (h: HttpError) ensures is_error_code(status_of(h))
//@ closure 2
|e: InvalidHeaderValue| -> (h: HttpError) ensures is_error_code(status_of(h))
//@ loop_iter 0 it
//@ before "let headers" 0
        let ghost base = result;
        let ghost mut hist: Seq<(String, String)> = Seq::empty();
//@ before "for (key, value)" 0
        let ghost pairs0 = header_map@;
        proof {
            assert(declared(Seq::<(String, String)>::empty()) =~= Seq::<(Seq<char>, Seq<char>)>::empty());
        }
//@ loop 0 invariant
            invariant
                hist == it.history@,
                it.history@ + IteratorSpec::remaining(&it.iter) == pairs0, // @inv_iterating_the_declared_pairs_in_order
                all_legal(it.history@), // @inv_every_pair_so_far_was_legal
                hm_view(*headers) == insert_all(hm_view(base.hdrs), declared(it.history@)), // @inv_declared_so_far_inserted
//@ loop 0 body_start
            let ghost h0 = it.history@;
            let ghost kv = (key, value);
            proof { hist = hist.push(kv); }
            proof {
                assert(declared(h0.push(kv)) =~= declared(h0).push((header_name_norm(key@), value@)));
                assert(declared(h0).push((header_name_norm(key@), value@)).drop_last() =~= declared(h0));
            }
//@ before "Ok(result)" 0
        proof {
            assert(hist =~= pairs0);
            assert(all_legal(pairs0));
        }
