//@ ret r
//@ contract
        ensures r.body == body, r.structured_headers == headers, hm_view(r.other_headers) == Seq::<(Seq<char>, Seq<char>)>::empty(), // @starts_without_explicit_headers
