// ---- CHECKED: what the property says about response headers (C12) ----
pub open spec fn hm_insert(s: Seq<(Seq<char>, Seq<char>)>, p: (Seq<char>, Seq<char>)) -> Seq<(Seq<char>, Seq<char>)> {
    hm_without(s, p.0).push(p)
}
/// the declared headers, as (normalised name, value) pairs in the order they are applied
pub open spec fn declared(ps: Seq<(String, String)>) -> Seq<(Seq<char>, Seq<char>)> {
    ps.map_values(|p: (String, String)| (header_name_norm(p.0@), p.1@))
}
pub open spec fn insert_all(s: Seq<(Seq<char>, Seq<char>)>, ps: Seq<(Seq<char>, Seq<char>)>) -> Seq<(Seq<char>, Seq<char>)>
    decreases ps.len()
{
    if ps.len() == 0 { s } else { hm_insert(insert_all(s, ps.drop_last()), ps.last()) }
}
/// every declared pair is a legal header
pub open spec fn all_legal(ps: Seq<(String, String)>) -> bool {
    forall|i: int| 0 <= i < ps.len() ==> header_name_ok((#[trigger] ps[i]).0@) && header_value_ok(ps[i].1@)
}

/// C12 "headers added explicitly override declared ones of the same name": after `extend`, every explicit entry is
/// present and no other entry carries the name of an explicit header.
pub proof fn explicit_headers_win(base: Seq<(Seq<char>, Seq<char>)>, explicit: Seq<(Seq<char>, Seq<char>)>)
    ensures
        forall|i: int| 0 <= i < explicit.len() ==> hm_extend(base, explicit).contains(#[trigger] explicit[i]), // @explicit_headers_are_sent
        forall|j: int| 0 <= j < hm_extend(base, explicit).len() && hm_has_name(explicit, (#[trigger] hm_extend(base, explicit)[j]).0)
            ==> explicit.contains(hm_extend(base, explicit)[j]), // @only_explicit_values_under_an_explicit_name
{
    let kept = base.filter(|p: (Seq<char>, Seq<char>)| !hm_has_name(explicit, p.0));
    let r = hm_extend(base, explicit);
    assert forall|i: int| 0 <= i < explicit.len() implies r.contains(#[trigger] explicit[i]) by {
        assert(r[kept.len() + i] == explicit[i]);
    }
    assert forall|j: int| 0 <= j < r.len() && hm_has_name(explicit, (#[trigger] r[j]).0) implies explicit.contains(r[j]) by {
        if j < kept.len() {
            broadcast use vstd::seq_lib::group_seq_properties;
            assert(kept.contains(kept[j]));
            assert(!hm_has_name(explicit, kept[j].0));
        } else {
            assert(r[j] == explicit[j - kept.len()]);
        }
    }
}

proof fn sentinel_v11_prelude_consistent()
    ensures false
{
    ax_known_reasons();
    broadcast use ax_constant_header_values_ok;
}
