use vstd::prelude::*;
use vstd::std_specs::iter::IteratorSpec;
//@ items
//@ include ../_common/prelude_http.rs
//@ include ../_common/prelude_error.rs
//@ include ../_common/prelude_response.rs
pub struct HttpErrorResponseBody { pub request_id: String, pub error_code: Option<String>, pub message: String }

// ---- TRUSTED ----
pub trait Serialize {}
/// #[derive(Serialize)] on NoHeaders / RedirectHeaders
impl Serialize for NoHeaders {}
impl Serialize for RedirectHeaders {}
/// the three redirect status kinds implement HttpCodedResponse (handler.rs)
impl From<HttpResponseFoundStatus> for Result<Response, HttpError> { #[verifier::external_body] fn from(_x: HttpResponseFoundStatus) -> Self { unimplemented!() } }
impl From<HttpResponseSeeOtherStatus> for Result<Response, HttpError> { #[verifier::external_body] fn from(_x: HttpResponseSeeOtherStatus) -> Self { unimplemented!() } }
impl From<HttpResponseTemporaryRedirectStatus> for Result<Response, HttpError> { #[verifier::external_body] fn from(_x: HttpResponseTemporaryRedirectStatus) -> Self { unimplemented!() } }
impl HttpCodedResponse for HttpResponseFoundStatus {}
impl HttpCodedResponse for HttpResponseSeeOtherStatus {}
impl HttpCodedResponse for HttpResponseTemporaryRedirectStatus {}
/// HttpCodedResponse: a typed response kind; all that matters here is that it converts into a response
pub trait HttpCodedResponse: Into<Result<Response, HttpError>> {}
/// `body.into()` (W1: written as a function call; Into::into is a trait method without a contract): the response the
/// coded body converts into, an uninterpreted function of the body (V15 verifies the real conversions)
pub uninterp spec fn body_conv<T>(body: T) -> Result<Response, HttpError>;
#[verifier::external_body]
pub fn coded_into<T: HttpCodedResponse>(body: T) -> (r: Result<Response, HttpError>) ensures r == body_conv(body) { unimplemented!() }
impl Default for HeaderMap {
    #[verifier::external_body]
    fn default() -> (r: HeaderMap) ensures hm_view(r) == Seq::<(Seq<char>, Seq<char>)>::empty() { unimplemented!() }
}
/// to_map.rs: to_map serialises the declared-headers struct into a BTreeMap<String, String>; the loop in to_result
/// iterates that map BY VALUE (`btree_map::IntoIter`, which this vstd does not model), i.e. in key order without
/// duplicate keys.  Modelled as the Vec of (name, value) pairs in that order.
pub uninterp spec fn to_map_spec<T>(x: T) -> Option<Seq<(String, String)>>;
#[verifier::external_body]
pub fn to_map<T: Serialize>(input: &T) -> (r: Result<Vec<(String, String)>, MapError>)
    ensures (r is Ok) == (to_map_spec(*input) is Some), r is Ok ==> r->Ok_0@ == to_map_spec(*input)->Some_0 { unimplemented!() }

#[verifier::external_body]
pub struct InvalidHeaderName { _p: u8 }
/// http::HeaderName::try_from(String): accepts legal header names and normalises them (lower case)
pub uninterp spec fn header_name_ok(s: Seq<char>) -> bool;
pub uninterp spec fn header_name_norm(s: Seq<char>) -> Seq<char>;
impl TryFrom<String> for HeaderName {
    type Error = InvalidHeaderName;
    #[verifier::external_body]
    fn try_from(s: String) -> (r: Result<HeaderName, InvalidHeaderName>)
        ensures (r is Ok) == header_name_ok(s@), r is Ok ==> r->Ok_0.name@ == header_name_norm(s@) { unimplemented!() }
}
/// http::HeaderName::from_lowercase(bytes): like try_from, but REFUSES a name that is not already in its normal
/// (lower-case) form (so that using it for try_from is decided, not refused)
pub struct ByteText { pub text: Ghost<Seq<char>> }
/// `key.as_bytes()` (W1, only if the code uses it): the bytes of the text, remembered as the text they encode
#[verifier::external_body]
pub fn string_bytes(s: &String) -> (r: ByteText) ensures r.text@ == s@ { unimplemented!() }
impl HeaderName {
    #[verifier::external_body]
    pub fn from_lowercase(b: ByteText) -> (r: Result<HeaderName, InvalidHeaderName>)
        ensures (r is Ok) == (header_name_ok(b.text@) && header_name_norm(b.text@) == b.text@), r is Ok ==> r->Ok_0.name@ == b.text@
    { unimplemented!() }
}
impl TryFrom<String> for HeaderValue {
    type Error = InvalidHeaderValue;
    #[verifier::external_body]
    fn try_from(s: String) -> (r: Result<HeaderValue, InvalidHeaderValue>)
        ensures (r is Ok) == header_value_ok(s@), r is Ok ==> hv_view(r->Ok_0) == s@ { unimplemented!() }
}
/// whether some entry of a header list has this name
pub open spec fn hm_has_name(s: Seq<(Seq<char>, Seq<char>)>, name: Seq<char>) -> bool {
    exists|i: int| 0 <= i < s.len() && (#[trigger] s[i]).0 == name
}
/// http's `Extend<(Option<HeaderName>, T)> for HeaderMap<T>`: for every name in `other`, the entries stored under
/// that name are REPLACED by other's entries for it; other names are kept
pub open spec fn hm_extend(s: Seq<(Seq<char>, Seq<char>)>, other: Seq<(Seq<char>, Seq<char>)>) -> Seq<(Seq<char>, Seq<char>)> {
    s.filter(|p: (Seq<char>, Seq<char>)| !hm_has_name(other, p.0)) + other
}
impl HeaderMap {
    #[verifier::external_body]
    pub fn extend(&mut self, other: HeaderMap)
        ensures hm_view(*final(self)) == hm_extend(hm_view(*old(self)), hm_view(other)) { unimplemented!() }
}
