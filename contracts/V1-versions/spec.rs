//@ include ../_common/spec_version.rs
// ---- must-fail sentinels (vacuity guards): each of these has to be REJECTED ----
proof fn sentinel_axioms_consistent()
    ensures false
{
    broadcast use vle_total, vle_antisym, vle_trans;
}
proof fn sentinel_in_range_not_trivially_true(r: ApiEndpointVersions, v: Version)
    requires wf(r)
    ensures in_range(r, v)
{
    broadcast use vle_total, vle_antisym, vle_trans;
}
proof fn sentinel_shared_not_trivially_false(a: ApiEndpointVersions, b: ApiEndpointVersions)
    requires wf(a), wf(b)
    ensures !shared(a, b)
{
    broadcast use vle_total, vle_antisym, vle_trans;
    overlap_closed_form(a, b);
}
