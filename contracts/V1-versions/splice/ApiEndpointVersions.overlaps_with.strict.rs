//@ ret r
//@ contract
        requires
            wf(*self),
            wf(*other),
        ensures
            r == shared(*self, *other), // @conflict_iff_shared_version
//@ body_start
        broadcast use vle_total, vle_antisym, vle_trans;
        proof {
            overlap_closed_form(*self, *other);
            if *self is Until && *other is Until && !empty_until(*self) && !empty_until(*other) { until_until_share(*self, *other); }
        }
