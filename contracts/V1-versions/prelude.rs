use vstd::prelude::*;
use vstd::std_specs::cmp::*;
use core::cmp::Ordering;
//@ items
//@ include ../_common/prelude_version.rs
